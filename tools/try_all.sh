#!/bin/bash
# usage: tools/try_all.sh <worktree> <PROP> [more props...]  — every mutants/mK.diff against the quick checks
wt=$1; shift
for k in 1 2 3; do
  [ -f $wt/mutants/m$k.diff ] || continue
  for prop in "$@"; do
    out=$(tools/try_mutant.sh $wt $k $prop 2>&1)
    demo_clean=$(echo "$out" | sed -n '/== clean demo/,/exit=/p' | grep -c PASS)
    tests=$(echo "$out" | grep -E "passed" | head -1 | sed 's/,.*//')
    demo_p=$(echo "$out" | sed -n '/== patched demo/,/== check/p' | grep -c FAIL)
    rc=$(echo "$out" | grep "check exit=" | sed 's/check exit=//')
    v=$(echo "$out" | grep -c VIOLATION)
    key=$(echo "$out" | grep "key=" | head -1 | cut -c1-150)
    echo "m$k $prop: clean_pass=$demo_clean tests='$tests' patched_fail=$demo_p check_rc=$rc violations=$v $key"
  done
done
