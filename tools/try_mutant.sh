#!/bin/bash
# usage: tools/try_mutant.sh <worktree> <k> <PROP> [tier]
# Confirms a sub-agent's mutant (clean demo passes, patched tests pass + demo fails) and runs the
# check for PROP against the patched scratch worktree (VERIF_REPO), then reverts the worktree.
wt=$1; k=$2; prop=$3; tier=${4:-quick}
cd "$wt" || exit 2
git checkout -q -- . 
echo "== clean demo"; PYTHONPATH=$wt /venv/bin/python mutants/m${k}_demo.py 2>&1 | tail -2; echo "exit=$?"
git apply mutants/m${k}.diff || { echo "patch does not apply"; exit 2; }
echo "== patched tests"; /venv/bin/python -m pytest -q -p no:cacheprovider 2>&1 | tail -1
echo "== patched demo"; PYTHONPATH=$wt /venv/bin/python mutants/m${k}_demo.py 2>&1 | tail -2
echo "== check $prop ($tier) on patched tree"
cd /verif && VERIF_OUT=/tmp/vout_$(basename $wt) VERIF_REPO=$wt ./check $prop --tier $tier 2>&1 | grep -E "VIOLATION|KNOWN|MACHINERY|key=|tier=" | head -12
echo "check exit=${PIPESTATUS[0]}"
cd "$wt" && git checkout -q -- .
find "$wt" -name __pycache__ -type d -exec rm -rf {} + 2>/dev/null
