#!/venv/bin/python
"""Script-dumping layer (script/pointers.py) against spec/Pointers.tla: every case of MC_Pointers (all 5-byte ROMs over
two byte values x tables of <= 3 distinct pointers x end addresses) through the real Script / write_* helpers, judged by
TracePointers.  Beyond the listed properties: differences are DRIFT diagnostics; exit 0 unless the machinery fails."""
import os
import sys
sys.path.insert(0, os.path.join(os.path.dirname(os.path.abspath(__file__)), ".."))
os.environ.setdefault("PYTHONHASHSEED", "0")
from harness import tlc  # noqa: E402
from harness.pool import Pool  # noqa: E402


def main() -> int:
    r = tlc.run("MC_Pointers", "INIT Init\nNEXT Next\nCHECK_DEADLOCK FALSE\nINVARIANT Laws\nINVARIANT Emit\n", tag="ptr.mc", env={"EMIT": 1}, heap="2g")
    cases = [c for c in r.printed if isinstance(c, dict) and "rom" in c]
    print(f"MC_Pointers: {r.distinct} states, laws hold; {len(cases)} cases")
    tasks = [dict(c, base=(k % 3) * 0x1000) for k, c in enumerate(cases)]
    res = Pool().map("pointers_case", tasks, timeout=30, batch=50)
    recs = []
    for k, (t, o) in enumerate(zip(tasks, res)):
        if o.get("hang") or o.get("crash") or o.get("driver_error"):
            print("MACHINERY-FAILURE:", o)
            return 2
        recs.append({"id": str(k), "rom": t["rom"], "ps": t["ps"], "e": t["e"], "base": t["base"], "obs": o})
    rejects, st, gen = tlc.judge_traces("TracePointers", recs, tag="ptr.trace", nshards=8)
    kinds = {}
    for rj in rejects:
        t = tasks[int(rj["id"])]
        key = (rj["clause"][:70], len(t["ps"]))
        kinds.setdefault(key, t)
    for (cl, n), t in sorted(kinds.items()):
        print(f"DRIFT: script-dumping layer: {cl} (tables of {n} pointer(s)), e.g. rom={t['rom']} ps={t['ps']} end={t['e']}")
    print(f"pointers_conformance cases={len(recs)} states={st} differences={len(rejects)}")
    return 0


if __name__ == "__main__":
    sys.exit(main())
