#!/bin/bash
# runs every quick check with the given seed(s) and prints one line per (seed, property); rc = exit status of the check
for seed in "$@"; do
for p in C01 C02 C03 C04 C05 C06 C07 C08 C09 C10 C11 C12 C13 C14 C15 C16 C17 C18 C19 C20; do
  s=$(date +%s)
  VERIF_SEED=$seed ./check $p --tier quick > /tmp/quick_$p.out 2>&1
  rc=$?
  out=$(grep -E "VIOLATION|MACHINERY|tier=quick" /tmp/quick_$p.out | tail -3 | cut -c1-300)
  echo "seed=$seed $p rc=$rc $(( $(date +%s) - s ))s :: $out"
  rm -f /tmp/quick_$p.out
done; done
