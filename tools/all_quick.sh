#!/bin/bash
# runs every quick check with the given seed(s) and prints one line per (seed, property)
for seed in "$@"; do
for p in C01 C02 C03 C04 C05 C06 C07 C08 C09 C10 C11 C12 C13 C14 C15 C16 C17 C18 C19 C20; do
  s=$(date +%s)
  out=$(VERIF_SEED=$seed ./check $p --tier quick 2>&1 | grep -E "VIOLATION|MACHINERY|tier=quick" | tail -3 | cut -c1-300)
  echo "seed=$seed $p $(( $(date +%s) - s ))s :: $out"
done; done
