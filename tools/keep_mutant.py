#!/usr/bin/env python3
"""usage: tools/keep_mutant.py <worktree> <k> <PROP> <detected: yes|no|partial> "<which check / note>"
Archives a confirmed sub-agent mutant as /verif/seeded/<PROP>-<name>/ (patch.diff, demo.py, meta.json)."""
import json
import shutil
import sys
from pathlib import Path

wt, k, prop, detected, note = sys.argv[1:6]
src = Path(wt) / "mutants"
meta = json.load(open(src / f"m{k}.json"))
name = f"{prop}-{Path(wt).name.replace('wt_', '')}-m{k}"
dst = Path("/verif/seeded") / name
dst.mkdir(parents=True, exist_ok=True)
shutil.copy(src / f"m{k}.diff", dst / "patch.diff")
shutil.copy(src / f"m{k}_demo.py", dst / "demo.py")
meta_out = {
    "id": name,
    "property": prop,
    "summary": meta.get("summary"),
    "needs": meta.get("needs"),
    "files": meta.get("files"),
    "confirmed": "clean tree: demo PASS; patched: 103 repository tests pass, demo FAIL (tools/try_mutant.sh)",
    "ran": f"tools/try_mutant.sh {wt} {k} {prop}",
    "detected_by_check": detected,
    "note": note,
}
json.dump(meta_out, open(dst / "meta.json", "w"), indent=1)
print("kept", dst)
