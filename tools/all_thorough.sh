#!/bin/bash
# runs every thorough check in sequence and prints a one-line summary per property (rc = exit status of the check)
for p in C01 C04 C06 C07 C11 C13 C18 C20 C05 C03 C02 C08 C09 C10 C12 C14 C15 C16 C17 C19; do
  s=$(date +%s)
  ./check $p --tier thorough > /tmp/thorough_$p.out 2>&1
  rc=$?
  out=$(grep -E "VIOLATION|MACHINERY|tier=thorough" /tmp/thorough_$p.out | tail -3)
  echo "$p rc=$rc $(( $(date +%s) - s ))s :: $out"
  rm -f /tmp/thorough_$p.out
done
