#!/bin/bash
# runs every thorough check in sequence and prints a one-line summary per property
for p in C04 C06 C07 C11 C13 C18 C20 C05 C03 C02 C08 C09 C10 C12 C14 C15 C16 C17 C19; do
  s=$(date +%s)
  out=$(./check $p --tier thorough 2>&1 | grep -E "VIOLATION|MACHINERY|tier=thorough" | tail -3)
  echo "$p rc=$? $(( $(date +%s) - s ))s :: $out"
done
