#!/usr/bin/env python3
"""usage: tools/keep2.py <worktree> <k> <PROP> <tag> <detected> "<note>"   (archives round-2+ mutants with a tag in the id)"""
import json, shutil, sys
from pathlib import Path
wt, k, prop, tag, detected, note = sys.argv[1:7]
src = Path(wt) / "mutants"
meta = json.load(open(src / f"m{k}.json"))
name = f"{prop}-{tag}-m{k}"
dst = Path("/verif/seeded") / name
dst.mkdir(parents=True, exist_ok=True)
shutil.copy(src / f"m{k}.diff", dst / "patch.diff")
shutil.copy(src / f"m{k}_demo.py", dst / "demo.py")
json.dump({"id": name, "property": prop, "summary": meta.get("summary"), "needs": meta.get("needs"), "files": meta.get("files"),
           "confirmed": "clean tree: demo PASS; patched: 103 repository tests pass, demo FAIL (tools/try_mutant.sh)",
           "ran": f"tools/try_mutant.sh {wt} {k} <check>", "detected_by_check": detected, "note": note}, open(dst / "meta.json", "w"), indent=1)
print("kept", dst)
