#!/bin/bash
# usage: [PROPS="C03 C06"] [RF_TAG=B] tools/try_refactors.sh <dir with rK.diff> <k...>   — applies each behaviour-preserving change to a scratch
# worktree of /repo HEAD and runs every quick check against it from a snapshot of /verif; any alarm is a false alarm.
src=$1; shift
snap=/tmp/verif_snap_$$
rm -rf $snap; mkdir -p $snap; rsync -a --exclude out --exclude .git /verif/ $snap/
for k in "$@"; do
  wt=/tmp/wt_rf${RF_TAG}_$k
  git -C /repo worktree remove --force $wt 2>/dev/null
  git -C /repo worktree add -q --detach $wt HEAD
  (cd $wt && git apply $src/r$k.diff) || { echo "r$k: patch does not apply"; continue; }
  t=$(cd $wt && /venv/bin/python -m pytest -q -p no:cacheprovider 2>&1 | tail -1)
  echo "r$k tests: $t"
  for p in ${PROPS:-C01 C02 C03 C04 C05 C06 C07 C08 C09 C10 C11 C12 C13 C14 C15 C16 C17 C18 C19 C20}; do
    out=$(cd $snap && VERIF_OUT=/tmp/vout_rf${RF_TAG}_$k VERIF_REPO=$wt ./check $p --tier quick 2>&1 | grep -E "VIOLATION|MACHINERY|DRIFT|tier=quick" | cut -c1-260 | head -6)
    echo "r$k $p :: $out"
  done
  git -C /repo worktree remove --force $wt
done
rm -rf $snap
