#!/usr/bin/env python3
"""Development tool (not a registered check): re-applies archived seeded changes to a scratch worktree of /repo
HEAD and runs the quick check that is supposed to catch each.  usage: tools/regress_seeded.py [id-prefix ...]"""
import json, re, subprocess, sys, glob, os
from pathlib import Path

sel = sys.argv[1:]
metas = sorted(glob.glob("/verif/seeded/*/meta.json"))
lane = os.environ.get("REGRESS_LANE", "")
wt = "/tmp/wt_regress" + lane
subprocess.run(["git", "-C", "/repo", "worktree", "remove", "--force", wt], capture_output=True)
subprocess.run(["git", "-C", "/repo", "worktree", "add", "-q", "--detach", wt, "HEAD"], check=True)
miss = []
try:
    for mf in metas:
        m = json.load(open(mf))
        if sel and not any(m["id"].startswith(s) for s in sel):
            continue
        det = m["detected_by_check"]
        if det == "no":
            print(f"{m['id']:14s} skipped (recorded as not covered)")
            continue
        by = re.search(r"by (C\d\d)", det) or re.match(r"(C\d\d)", det)
        props = [by.group(1)] if by else [m["property"]]
        if det == "partial":
            props = ["C03"]
        subprocess.run(["git", "-C", wt, "checkout", "-q", "--", "."], check=True)
        ap = subprocess.run(["git", "-C", wt, "apply", str(Path(mf).parent / "patch.diff")], capture_output=True, text=True)
        if ap.returncode != 0:
            print(f"{m['id']:14s} PATCH DOES NOT APPLY on HEAD ({ap.stderr.strip()[:80]})")
            continue
        for prop in props:
            env = dict(os.environ, VERIF_REPO=wt, VERIF_OUT="/tmp/vout_regress" + lane)
            r = subprocess.run(["./check", prop, "--tier", "quick"], cwd="/verif", env=env, capture_output=True, text=True)
            nv = r.stdout.count("VIOLATION property=")
            status = "caught" if r.returncode == 1 and nv else ("MACHINERY" if r.returncode == 2 else "MISSED")
            if status != "caught":
                miss.append((m["id"], prop, status))
            print(f"{m['id']:14s} {prop}: {status} ({nv} violations)", flush=True)
finally:
    subprocess.run(["git", "-C", "/repo", "worktree", "remove", "--force", wt], capture_output=True)
print("NOT CAUGHT:", miss)
