#!/venv/bin/python
"""Syntax-layer conformance (beyond the listed properties): Ast!Rep(prog) = flat(parse_as_ast(render(prog))) for
seeded APR programs and MC_Asm family programs.  Differences are DRIFT diagnostics (no listed property speaks about
the tree); exit status 0 unless the machinery fails.   usage: tools/ast_conformance.py [n_programs] [seed]"""
import os
import sys
sys.path.insert(0, os.path.join(os.path.dirname(os.path.abspath(__file__)), ".."))
os.environ.setdefault("PYTHONHASHSEED", "0")
from harness import apr, tlc  # noqa: E402
from harness.pool import Pool  # noqa: E402


def main() -> int:
    n = int(sys.argv[1]) if len(sys.argv) > 1 else 1500
    seed = int(sys.argv[2]) if len(sys.argv) > 2 else 0
    progs = [apr.gen_program(seed * 7919 + k, size=6 + k % 12, maxdepth=3) for k in range(n)]
    # the programs of some MC_Asm families (TLC-enumerated)
    for fam, L in (("macros", 4), ("ctl", 4), ("splice2", 5), ("scopes", 4)):
        rs = tlc.run_sharded("MC_Asm", "INIT Init\nNEXT Next\nCHECK_DEADLOCK FALSE\nINVARIANT Emit\n", tag=f"ast.gen.{fam}", nshards=16,
                             heap="2g", env={"MAXLEN": L, "FAMILY": fam, "EMIT": 1, "PHASECHECK": 1}, timeout=3600)
        progs += [q for r in rs for q in r.printed if isinstance(q, dict) and "body" in q]
    # an expression zoo: every operator, unary minus, nesting on either side, large literals, qualified names
    leaves = [apr.num(0), apr.num(9), apr.num(10), apr.num(0xFFFF), apr.num(-3), apr.ident("a"), apr.ident("n.a"),
              {"k": "big", "hi": 0x12, "lo": 0x000045, "neg": False}, {"k": "big", "hi": 0, "lo": 0xABCDEF, "neg": True}]
    ops = ["+", "-", "*", "&", "<<", ">>"]   # the binary operators a816 has
    zoo = list(leaves) + [apr.neg(x) for x in leaves]
    for j, o in enumerate(ops):
        for k2, l in enumerate(leaves):
            r = leaves[(j + k2) % len(leaves)]
            zoo.append(apr.binop(o, l, r))
            zoo.append(apr.binop(o, apr.binop(ops[(j + 1) % len(ops)], l, r), apr.neg(r)))
            zoo.append(apr.binop(o, apr.neg(l), apr.binop(ops[(j + 3) % len(ops)], r, l)))
    for k2 in range(0, len(zoo), 3):
        es = zoo[k2:k2 + 3]
        body = [{"k": "stareq", "e": apr.num(0x8000)}, {"k": "data", "d": "dl", "es": es}, {"k": "sym", "n": "v", "e": es[0]},
                {"k": "op", "mn": "lda", "shape": "dir", "sfx": "l", "e": es[-1]}, {"k": "op", "mn": "lda", "shape": "imm", "sfx": "w", "e": es[-1]},
                {"k": "branch", "mn": "bra", "e": es[0]}, {"k": "if", "e": es[0], "t": [], "hasf": False, "f": []},
                {"k": "for", "v": "i", "a": es[0], "b": es[-1], "body": []}]
        progs.append({"rom": "low", "defines": [], "body": body})
    res = Pool().map("ast_of", [{"prog": p} for p in progs], timeout=30)
    recs = []
    for k, (p, o) in enumerate(zip(progs, res)):
        if o.get("hang") or o.get("crash") or o.get("driver_error"):
            print("MACHINERY-FAILURE:", o)
            return 2
        recs.append({"id": str(k), "prog": {kk: vv for kk, vv in p.items() if kk != "_alt"}, "parsed": o["parsed"], "flat": o["flat"]})
    rejects, st, gen = tlc.judge_traces("TraceAst", recs, tag="ast.trace", nshards=16, heap="2g")
    for rj in rejects[:20]:
        k = int(rj["id"])
        print(f"DRIFT: syntax layer: program {k}: {rj['clause']}")
        if len(rejects) <= 3:
            print(res[k]["src"], res[k]["err"])
    print(f"ast_conformance programs={len(recs)} states={st} differences={len(rejects)}")
    return 0


if __name__ == "__main__":
    sys.exit(main())
