"""Shared runner for the properties decided with the Asm module: observe APR programs in a816 and
let TraceAsm judge them."""
from __future__ import annotations

from harness import tlc
from harness.pool import Pool


def observe(progs: list[dict], timeout: float = 30.0) -> list[dict]:
    res = Pool().map("asm_prog", [{"prog": p} for p in progs], timeout=timeout)
    for p, o in zip(progs, res):
        if o.get("driver_error") or o.get("crash"):
            raise tlc.TLCFailure(f"asm_prog failed: {o}")
    return res


def judge(ctx, progs: list[dict], res: list[dict], tag: str, keyfn, what: str) -> dict:
    """-> stats {"unspec": n, "ok": n, "rejected": n}"""
    recs = []
    for k, (p, o) in enumerate(zip(progs, res)):
        if o.get("hang"):
            ctx.violation(f"hang:{keyfn(p, 'hang', '')}", "assembly did not terminate", {"prog": p})
            continue
        rec = {"id": str(k), "prog": p, "obs": {"ok": o["ok"], "calls": o["calls"], "labels": o["labels"]}}
        if "_alt" in p:      # an alternative reading of the same source text (see TraceAsm!VerdictAlt)
            rec["alt"] = p["_alt"]
            rec["prog"] = {kk: vv for kk, vv in p.items() if kk != "_alt"}
        recs.append(rec)
    rejects, st, gen = tlc.judge_traces("TraceAsm", recs, tag=tag, nshards=16, heap="2g")
    ctx.add_states(st, gen, what)
    ctx.traces += len(recs)
    stats = {"unspec": 0, "rejected": 0, "unspec_reasons": {}}
    for rj in rejects:
        k = int(rj["id"])
        if rj["clause"] == "unspec":
            stats["unspec"] += 1
            stats["unspec_reasons"][rj["detail"]] = stats["unspec_reasons"].get(rj["detail"], 0) + 1
            continue
        stats["rejected"] += 1
        o = res[k]
        ctx.violation(keyfn(progs[k], rj["clause"], rj.get("detail", "")), f"{rj['clause']}: {rj.get('detail', '')}"[:300],
                      {"prog": progs[k], "source": o["src"], "observed": {"ok": o["ok"], "calls": o["calls"][:8], "labels": o["labels"][:20],
                                                                          "err": o["err"]}})
    stats["judged"] = len(recs) - stats["unspec"]
    return stats


def replay(ctx, data) -> int:
    p = data["prog"]
    o = observe([p])[0]
    print(o["src"])
    print("re-observed:", {k: o[k] for k in ("ok", "calls", "labels", "err")})
    rec = {"id": "0", "prog": p, "obs": {"ok": o["ok"], "calls": o["calls"], "labels": o["labels"]}}
    rejects, _, _ = tlc.judge_traces("TraceAsm", [rec], tag="asm.replay", nshards=1)
    print("TLC verdict:", rejects or "accepted")
    return 1 if [r for r in rejects if r["clause"] != "unspec"] else 0


def sig(s) -> str:
    """compact signature of a statement (for known-findings keys of small programs)"""
    k = s["k"]
    if k in ("block", "scope"):
        return ("n" if k == "scope" else "") + "{" + ",".join(sig(x) for x in s["b"]) + "}"
    if k == "macro":
        return f"macro {s['n']}({','.join(s['ps'])}){{" + ",".join(sig(x) for x in s["b"]) + "}"
    if k == "apply":
        def a(x):
            return "code" if x["k"] == "code" else (x.get("n") or str(x.get("v", "e")))
        return f"{s['n']}({','.join(a(x) for x in s['as'])})"
    if k == "if":
        c = s["e"].get("n") or str(s["e"].get("v"))
        return f"if {c}{{" + ",".join(sig(x) for x in s["t"]) + "}" + ("else{" + ",".join(sig(x) for x in s["f"]) + "}" if s["hasf"] else "")
    if k == "for":
        def b(x):
            return x.get("n") or str(x.get("v"))
        return f"for {b(s['a'])}..{b(s['b'])}{{" + ",".join(sig(x) for x in s["body"]) + "}"
    if k == "op":
        return s["mn"] + ("." + s["sfx"] if s["sfx"] else "")
    if k in ("label", "assign", "sym"):
        return {"label": "L", "assign": ":=", "sym": "="}[k] + s["n"]
    if k == "data":
        def v(e):
            return e.get("n") or str(e.get("v", "e"))
        return "." + s["d"] + " " + ",".join(v(e) for e in s["es"])
    if k in ("stareq", "ateq"):
        return ("*=" if k == "stareq" else "@=") + hex(s["e"].get("v", 0))
    if k == "splice":
        return "{{" + s["p"] + "}}"
    return k


def default_key(p, clause, detail) -> str:
    body = p["body"][1:] if p["body"] and p["body"][0]["k"] == "stareq" else p["body"]
    if len(body) <= 7:
        return f"{clause}/small:" + ";".join(sig(s) for s in body)
    kinds = sorted({s["k"] for s in body if s["k"] in ("stareq", "ateq", "incbin", "for", "if", "apply", "scope", "block", "macro", "map")})
    return f"{clause}/{p['rom']}/{'+'.join(kinds)}"


def run_families(ctx, fams, randoms: list[dict], tag: str, what: str, keyfn=default_key):
    """fams: [(family, maxlen)] explored with MC_Asm (Design invariant + vectors); randoms: extra programs"""
    from harness.props import asm_mc
    progs = []
    for fam, L in fams:
        asm_mc.design_level(ctx, fam, L)
        ps = asm_mc.programs(ctx, fam, L)
        ctx.extra.setdefault("tlc_enumerated_programs", {})[fam] = len(ps)
        progs += ps
    progs += randoms
    import time
    t0 = time.time()
    res = observe(progs)
    t1 = time.time()
    stats = judge(ctx, progs, res, tag, keyfn, what)
    stats["observe_wall_s"] = round(t1 - t0, 1)
    stats["judge_wall_s"] = round(time.time() - t1, 1)
    ctx.evaluations += len(progs)
    ctx.extra["asm_stats"] = stats
    return progs, res, stats
