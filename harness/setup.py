#!/venv/bin/python
"""MANIFEST.setup_cmd: nothing to compile or fetch; syntax-check every spec module with SANY."""
import subprocess
import sys
from pathlib import Path

SPEC = Path(__file__).resolve().parent.parent / "spec"
JARS = "/opt/veriftools/tla/tla2tools.jar:/opt/veriftools/tla/CommunityModules-deps.jar"
bad = 0
for f in sorted(SPEC.glob("*.tla")):
    p = subprocess.run(["java", "-cp", JARS, "tla2sany.SANY", f.name], cwd=SPEC, capture_output=True, text=True)
    ok = p.returncode == 0 and "rrors" not in p.stdout and "Exception" not in p.stdout
    print(("ok   " if ok else "FAIL ") + f.name)
    if not ok:
        bad += 1
        print(p.stdout[-800:])
sys.exit(1 if bad else 0)
