"""C11 — IPS output is well formed and patches exactly the written blocks.
Design level: MC_C11 (scaled instance: every history of <= 2/3 writes through the writer as specified,
read back by the independent reader; two spec mutants must be refuted).  Conformance: GenC11's
histories at the real constants + seeded random histories through the real IPSWriter; the produced
file is logged as bytes and judged by TraceC11 (reader, tiling, refusal justification)."""
from __future__ import annotations

import random

from harness import tlc
from harness.pool import Pool

EOF = 0x454F46
LIM = 1 << 24
MC_CFG = ("INIT Init\nNEXT Next\nCHECK_DEADLOCK FALSE\nINVARIANT WellFormedFile\nINVARIANT FileAccepted\n"
          "INVARIANT PatchesExactly\nINVARIANT NothingWrapped\n")


def key_of(case: dict, clause: str) -> str:
    ws = case["writes"]
    tags = []
    for w in ws:
        a = w["addr"] + (0x200 if case["header"] else 0)
        if w["len"] and a == EOF:
            tags.append("starts-at-EOF")
        elif w["len"] and a < EOF < a + w["len"] and (EOF - a) % 0xFFFF == 0:
            tags.append("split-lands-on-EOF")
        elif a < 0:
            tags.append("negative-address")
        elif a + w["len"] > LIM:
            tags.append("beyond-16MiB")
    tag = "+".join(sorted(set(tags))) or ("multi-record" if any(w["len"] > 0xFFFF for w in ws) else "plain")
    return f"{tag}: {clause[:60]}"


def random_history(rnd: random.Random, big: bool) -> dict:
    n = rnd.choice([1, 2, 3, 4])
    ws = []
    for k in range(n):
        ln = rnd.choice([0, 1, 2, 3, 17, 255, 256, 4096] + ([65535, 65536, 70000, 131070, 140000] if big else []))
        base = rnd.choice([0, 0x1FF, 0x200, 0x8000, 0x7FFFFF, EOF - ln, EOF - 0x200 - ln, EOF - 0xFFFF, EOF - 0xFFFF - 0x200,
                           EOF - 1, EOF + 1, LIM - ln, LIM - ln - 0x200, rnd.randrange(0, LIM)])
        ws.append({"addr": max(-1, base + rnd.choice([-1, 0, 0, 0, 1])), "len": ln, "seed": rnd.randrange(256),
                   "step": rnd.choice([1, 3, 7, 255, 0, 0])})       # step 0: a block of identical bytes
    return {"header": rnd.random() < 0.5, "writes": ws}


def run(ctx) -> None:
    rnd = random.Random(ctx.seed)
    ctx.rule = ("cases = write histories (address, length, pattern) x copier header; non-trivial = distinct "
                "(header, per-write (address class, length)) histories; files judged byte-for-byte by the Ips reader")
    ctx.trusted = ["TLC 1.8", "spec/Ips.tla reference reader (Read) and tiling rule", "pattern generator for block contents"]
    ctx.assumptions = ["a refusal (exception) is accepted only for blocks outside 0..2^24 or covering the EOF address"]
    mb = 2 if ctx.quick else 3
    env = {"MAXBLOCKS": mb, "SPLITAT": 3, "AVOID": 1, "ADDRS": "all" if ctx.quick else "edge"}
    r = tlc.run("MC_C11", MC_CFG, tag="c11.mc", env=env, workers=16, heap="6g", timeout=7200)
    ctx.add_tlc(r, f"MC_C11 scaled writer/reader, <= {mb} writes")
    for name, e2 in (("SPLITAT=4", {"SPLITAT": 4}), ("AVOID=0 (pinned)", {"AVOID": 0})):
        m = tlc.run("MC_C11", MC_CFG, tag="c11.mutant", env={**env, "MAXBLOCKS": 1, "ADDRS": "all", **e2}, allow_violation=True)
        if not m.violated:
            raise tlc.TLCFailure(f"spec mutant {name} was not refuted by MC_C11")
        ctx.note(f"spec mutant {name} refuted by TLC ({m.violated} violated), as required")

    g = tlc.run("GenC11", "INIT Init\nNEXT Next\nINVARIANT Emit\nCHECK_DEADLOCK FALSE\n", tag="c11.gen")
    ctx.add_tlc(g, "GenC11 histories at the real constants")
    cases = [c for c in g.printed if "writes" in c]
    if len(cases) < 100:
        raise tlc.TLCFailure("GenC11 produced too few histories")
    big = [c for c in cases if sum(w["len"] for w in c["writes"]) > 4096]
    small = [c for c in cases if sum(w["len"] for w in c["writes"]) <= 4096]
    # big files are expensive to ship to TLC: all of them in thorough, a seeded rotating subset in quick,
    # always including the hazardous ones
    if ctx.quick:
        hazard = [c for c in big if any((w["addr"] + (0x200 if c["header"] else 0)) in (EOF, EOF - 0xFFFF) for w in c["writes"])]
        rest = [c for c in big if c not in hazard]
        rnd.shuffle(rest)
        big = hazard[:12] + rest[:14]
    cases = small + big
    cases += [random_history(rnd, big=(k % 10 == 0)) for k in range(300 if ctx.quick else 3000)]
    # histories that write the same block again after something else touched its bytes (the order of writes, not
    # their content, decides what a patcher ends up with), and histories with no non-empty block at all
    for hdr in (False, True):
        for X in (0x1000, 0x8000 - 3, EOF - 0x40, 0x7FFFF0):
            A = {"addr": X, "len": 6, "seed": 0x11, "step": 1}
            for B in ({"addr": X + 2, "len": 3, "seed": 0xB0, "step": 1}, {"addr": X - 1, "len": 4, "seed": 0xC0, "step": 3},
                      {"addr": X, "len": 6, "seed": 0xD0, "step": 1}, {"addr": X + 6, "len": 2, "seed": 0xE0, "step": 1}):
                cases.append({"header": hdr, "writes": [dict(A), dict(B), dict(A)]})
                cases.append({"header": hdr, "writes": [dict(A), dict(B), dict(A), dict(B)]})
            cases.append({"header": hdr, "writes": [dict(A), dict(A)]})
        # blocks of identical bytes (a writer may choose run-length records) at and around the EOF address
        for ln in (3, 4, 5, 300, 65535, 65536):
            for a in (EOF - (0x200 if hdr else 0), EOF - (0x200 if hdr else 0) - 1, 0x8000, EOF - (0x200 if hdr else 0) - ln):
                cases.append({"header": hdr, "writes": [{"addr": a, "len": ln, "seed": 0x77, "step": 0}, {"addr": 0x9000, "len": 2, "seed": 1, "step": 1}]})
        cases.append({"header": hdr, "writes": []})
        cases.append({"header": hdr, "writes": [{"addr": 0x8000, "len": 0, "seed": 0, "step": 1}]})
    res = Pool().map("ips_write", cases, timeout=120)
    recs = []
    for k, (c, o) in enumerate(zip(cases, res)):
        if o.get("hang") or o.get("driver_error") or o.get("crash"):
            raise tlc.TLCFailure(f"driver failed on {c}: {o}")
        recs.append({"id": str(k), "header": c["header"], "writes": c["writes"], "refused_at": o["refused_at"], "file": o["file"]})
        ctx.evaluations += 1
        ctx.nontrivial.add((c["header"], tuple((w["addr"], w["len"]) for w in c["writes"])))
    ctx.sample({"header": cases[0]["header"], "writes": cases[0]["writes"], "file_prefix": recs[0]["file"][:24]})
    rejects, st, gen = tlc.judge_traces("TraceC11", recs, tag="c11.trace", nshards=16, heap="3g")
    ctx.add_states(st, gen, "TraceC11 reading every produced file")
    ctx.traces += len(recs)
    for rj in rejects:
        c = cases[int(rj["id"])]
        o = res[int(rj["id"])]
        ctx.violation(key_of(c, rj["clause"]), rj["clause"], {"case": c, "refused_at": o["refused_at"], "error": o["err"],
                                                              "file_prefix": o["file"][:64], "file_len": len(o["file"])})


def replay(ctx, data) -> int:
    c = data["case"]
    o = Pool(1).map("ips_write", [c], timeout=120)[0]
    rec = {"id": "replay", "header": c["header"], "writes": c["writes"], "refused_at": o["refused_at"], "file": o["file"]}
    print("history:", c, "\nrefused_at:", o["refused_at"], o["err"], "file length:", len(o["file"]))
    rejects, _, _ = tlc.judge_traces("TraceC11", [rec], tag="c11.replay", nshards=1, heap="3g")
    print("TLC verdict:", rejects or "accepted")
    return 1 if rejects else 0
