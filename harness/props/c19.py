"""C19 — assemblies are independent of each other and repeatable.
Design level: Session (GlobalUnchanged, ResultDependsOnSourceOnly) instantiated by MC_C19 over all
histories.  Conformance (behaviour machine): TLC enumerates every history of <= 2 (quick) / 3 sources;
the harness replays history + probe + probe in ONE fresh process, logging after every assembly the
global projection and the result; every source's result in a fresh process is recorded too; TraceC19
accepts a process iff it is a behaviour of Session with Result = the fresh results."""
from __future__ import annotations

from harness import tlc
from harness.pool import Pool


def run(ctx) -> None:
    mh = 2 if ctx.quick else 3
    ctx.rule = (f"histories = every sequence of <= {mh} of 23 sources (valid, macros, symbols, two tables under one path, file API from two directories, two custom .map layouts, "
                "HiROM, incbin, include_ips, .include (good and failing inside the included file), failures in scan/parse/expansion/label pass/emission) followed by each of 18 probes "
                "run twice; non-trivial = distinct (history, probe)")
    ctx.trusted = ["TLC 1.8", "spec/Session.tla", "global projection in harness/drivers.py (every non-callable module-level "
                   "value and class attribute of a816.*/script.*)"]
    ctx.assumptions = ["the worker that forks the session process has imported a816 but never assembled anything",
                       "sources that hang are excluded"]
    cfg = "INIT Init\nNEXT Next\nCHECK_DEADLOCK FALSE\nINVARIANT ResultDependsOnSourceOnly\nPROPERTY GlobalUnchanged\nINVARIANT Emit\n"
    r = tlc.run("MC_C19", cfg, tag="c19.mc", env={"MAXHIST": mh}, heap="2g")
    ctx.add_tlc(r, f"MC_C19 Session: all histories <= {mh}")
    vecs = [v for v in r.printed if isinstance(v, dict) and "hist" in v]
    probes = sorted(vecs[0]["probes"])
    hists = [v["hist"] for v in vecs]
    if len(hists) < 15:
        raise tlc.TLCFailure("MC_C19 produced too few histories")
    pool = Pool(modname="harness.drivers")
    sources = sorted({s for h in hists for s in h} | set(probes))
    # the reference result of every source: a really fresh interpreter with its own string-hash seed
    fresh_out = pool.map("session_history", [{"ids": [s], "hashseed": 101 + ctx.seed} for s in sources], timeout=120, batch=1)
    fresh = {}
    for s, o in zip(sources, fresh_out):
        if "steps" not in o:
            raise tlc.TLCFailure(f"fresh run of {s} failed: {o}")
        fresh[s] = o["steps"][0]["res"]
    tasks = [{"ids": h + [p, p]} for h in hists for p in probes]
    # every source once more, alone, in another fresh interpreter with another hash seed (repeatability across processes)
    tasks += [{"ids": [s], "hashseed": 7001 + 13 * ctx.seed + j + 1000 * rep} for rep in range(3) for j, s in enumerate(sources)]
    outs = pool.map("session_history", tasks, timeout=120, batch=4)
    recs = []
    for k, (t, o) in enumerate(zip(tasks, outs)):
        if "steps" not in o:
            if o.get("hang"):
                ctx.violation("hang:" + ">".join(t["ids"]), "history did not terminate", {"ids": t["ids"]})
                continue
            raise tlc.TLCFailure(f"session {t['ids']} failed: {o}")
        recs.append({"id": str(k), "g0": o["g0"], "steps": o["steps"], "fresh": {s: fresh[s] for s in set(t["ids"])}})
        ctx.evaluations += len(t["ids"])
        ctx.nontrivial.add(tuple(t["ids"]))
    ctx.sample({"history": tasks[17]["ids"], "probe_result": outs[17]["steps"][-1]["res"], "projection_keys": len(outs[17]["g0"])})
    rejects, st, gen = tlc.judge_traces("TraceC19", recs, tag="c19.trace", nshards=16, heap="2g")
    ctx.add_states(st, gen, "TraceC19 validating process behaviours against Session")
    ctx.traces += len(recs)
    ctx.exhaustive = True
    drift = [rj for rj in rejects if rj["clause"].startswith("drift:")]
    rejects = [rj for rj in rejects if not rj["clause"].startswith("drift:")]
    ctx.extra["global_projection_changes"] = len(drift)
    seen = set()
    for rj in drift:
        what = rj["clause"].split("): ")[-1]
        if what not in seen:
            seen.add(what)
            ctx.drift_note("module-level state changed by an assembly (no result changed): " + rj["clause"][7:200])
    for rj in rejects:
        ids = tasks[int(rj["id"])]["ids"]
        o = outs[int(rj["id"])]
        # key: what leaked into what
        bad = next((j for j, stp in enumerate(o["steps"]) if stp["res"] != fresh[stp["src"]]), 0)
        kind = "result"
        prev = ids[bad - 1] if bad > 0 else "-"
        ctx.violation(f"{kind}:{prev}>{ids[bad]}", rj["clause"][:300],
                      {"ids": ids, "step": bad + 1, "observed": o["steps"][bad]["res"], "fresh": fresh[ids[bad]]})


def replay(ctx, data) -> int:
    pool = Pool()
    ids = data["ids"]
    o = pool.map("session_history", [{"ids": ids}], timeout=120)[0]
    fresh = {s: pool.map("session_history", [{"ids": [s]}], timeout=60)[0]["steps"][0]["res"] for s in set(ids)}
    rec = {"id": "0", "g0": o["g0"], "steps": o["steps"], "fresh": fresh}
    rejects, _, _ = tlc.judge_traces("TraceC19", [rec], tag="c19.replay", nshards=1)
    print("history:", ids)
    print("TLC verdict:", rejects or "accepted")
    return 1 if rejects else 0
