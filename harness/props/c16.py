"""C16 — output does not depend on how the source text is laid out.
Layout.tla is a behaviour machine whose state is the set of presentation changes applied to a base
program (blank lines, indentation by blanks or a tab, trailing blanks, full-line / end-of-line / block
comments, blanks next to operators, commas and operand brackets, letter case of mnemonics, size suffixes,
index registers and hex digits, moving a run of statements into an included file) and which RENDERS the
source text itself.  TLC explores every composition of <= 1/2 (quick) / 2/3 actions at every applicable
position; each rendered variant is assembled and TraceC16 requires outcome, ordered image and labels to
equal the base program's."""
from __future__ import annotations

import json
from concurrent.futures import ThreadPoolExecutor

from harness import apr, tlc
from harness.core import OUT, REPO
from harness.layout import base_json
from harness.pool import Pool

HAND = [
    """*=0x008000
start:
lda.w #0x12ab+3
sta.l 0x7e00ff,x
lda (0x10),y
lda [0x20],y
eor (0x3c,x)
lda (0x05,s),y
jmp (0x1f00)
cmp.b 0xfe
adc.w start+2,x
lda (0x10+2),y
lda [0x20+1],y
and.b #0xf0|1
ldx #0
.ascii 'col\tumn'
.db 1,0
.db 1,0x2a,start&0xff
.dw start+2,0xbeef
loop:
dex
bne loop
nop
.ascii 'it''s'
rts
""".replace("it''s", "its ; ok"),
    """*=0x01fff0
value := 0x1c
.macro store(a,b){
lda.w #a<<1
sta.w b
}
store(value,0x2100)
.scope tools{
entry:
ldx.w #0xff00
rtl
}
jsr.l tools.entry
{
local:
.dl local,tools.entry-1
}
.if value{
.db 0xa1
}else{
.db 0xb2
}
.for i := 0,3{
.db i*2
}
@=0x7e2000
ram:
sta.l ram,x
""",
    """*=0xc00000
table_start:
.pointer table_start,table_end
.dl 0xabcdef&0xff00ff
adc.l 0xc01234,x
and.w 0xabcd
ora.w 0xabcd,x
sbc (0x10),y
pea.w table_end-1
table_end:
lsr
asl 0x10
""",
]


def run(ctx) -> None:
    from a816.cpu.cpu_65c816 import snes_opcode_table   # the mnemonic list, only to split base lines into pieces
    mn = set(snes_opcode_table.keys())
    q = ctx.quick
    ctx.rule = ("variants = every composition of presentation actions (Layout.tla) at every applicable position: <= 2 actions on "
                "the hand-written bases in thorough (1 in quick, 2 on the first), 1 on seeded generated bases; non-trivial = distinct "
                "(base, action set)")
    ctx.trusted = ["TLC 1.8", "spec/Layout.tla (renders the variants)", "harness/layout.py piecer (splits base lines into pieces)"]
    ctx.assumptions = ["block comments are placed on lines of their own, tabs only as indentation, no CR-LF, no escapes in strings (§8)"]
    bases = []
    for k, text in enumerate(HAND):
        rom = "high" if "0xc00000" in text else "low"
        bases.append({"name": f"hand{k}", "text": text, "files": {}, "rom": rom, "maxacts": 2 if (k == 0 or not q) else 1})
    for k in range(3 if q else 20):
        p = apr.gen_program(ctx.seed * 611953 + k, size=9)
        src, files = apr.render(p)
        bases.append({"name": f"gen{k}", "text": src, "files": files, "rom": p["rom"], "maxacts": 1})
    work = OUT / "c16"
    work.mkdir(parents=True, exist_ok=True)
    jobs = []
    for b in bases:
        try:
            bj = base_json(b["text"], mn)
        except ValueError as e:
            ctx.note(f"base {b['name']} skipped: {e}")
            continue
        b["norm"] = bj["text"]
        f = work / f"{b['name']}.json"
        f.write_text(json.dumps({"lines": bj["lines"], "runs": bj["runs"]}))
        jobs.append((b, f))

    def explore(job):
        b, f = job
        return tlc.run("Layout", "INIT Init\nNEXT Next\nCHECK_DEADLOCK FALSE\nINVARIANT Emit\n", tag=f"c16.{b['name']}",
                       env={"BASE_FILE": str(f), "MAXACTS": b["maxacts"]}, heap="2g")
    with ThreadPoolExecutor(max_workers=8) as ex:
        results = list(ex.map(explore, jobs))
    tasks, meta = [], []
    for (b, f), r in zip(jobs, results):
        ctx.add_tlc(r, f"Layout base={b['name']} <= {b['maxacts']} actions")
        vs = [v for v in r.printed if isinstance(v, dict) and "main" in v]
        for v in vs:
            files = dict(b["files"])
            if v["inc"]:
                # (a source without a final line end: the included file ends without one too)
                files["moved.s"] = {"text": "\n".join(v["inc"]) + ("\n" if v.get("final_newline", True) else "")}
            tasks.append({"src": "\n".join(v["main"]) + ("\n" if v.get("final_newline", True) else ""), "files": files, "rom": b["rom"]})
            meta.append((b, v["acts"]))
    res = Pool().map("assemble", tasks, timeout=30)
    base_obs = {}
    for (b, acts), o in zip(meta, res):
        if not acts:
            base_obs[b["name"]] = o
    # the normalised base (pieces re-joined) must behave like the original text: the piecer lost nothing
    orig = Pool().map("assemble", [{"src": b["text"], "files": b["files"], "rom": b["rom"]} for b, _ in jobs], timeout=30)
    for (b, _), o in zip(jobs, orig):
        bo = base_obs[b["name"]]
        if (o["ok"], o["calls"], o["labels"]) != (bo["ok"], bo["calls"], bo["labels"]):
            raise tlc.TLCFailure(f"piecer changed the meaning of base {b['name']}")
    for name, bo in list(base_obs.items()):
        if not bo["ok"]:
            ctx.note(f"base {name} does not assemble: skipped (not a layout question)")
    recs = []
    for k, ((b, acts), o) in enumerate(zip(meta, res)):
        if not base_obs[b["name"]]["ok"]:
            continue
        if o.get("hang"):
            ctx.violation(f"hang:{b['name']}", "variant did not terminate", {"task": tasks[k]})
            continue
        if o.get("driver_error") or o.get("crash"):
            raise tlc.TLCFailure(f"assemble failed: {o}")
        bo = base_obs[b["name"]]
        recs.append({"id": str(k), "base": {"ok": bo["ok"], "calls": bo["calls"], "labels": bo["labels"]},
                     "var": {"ok": o["ok"], "calls": o["calls"], "labels": o["labels"]}})
        ctx.evaluations += 1
        ctx.nontrivial.add((b["name"], json.dumps(acts, sort_keys=True)))
    ctx.sample({"base": jobs[0][0]["name"], "actions": meta[5][1], "variant_source": tasks[5]["src"][:300]})
    # design level (TokensPreserved): in the character-level scanner model every variant has the token stream of
    # its base (up to comments, positions, case) — a seeded sample of the variants without an include move
    idx = [k for k, (b, acts) in enumerate(meta) if acts and not any(a["a"] == "inc" for a in acts) and len(tasks[k]["src"]) < 700]
    import random as _r
    _r.Random(ctx.seed).shuffle(idx)
    idx = idx[: (1500 if q else 20000)]
    trecs = [{"id": str(k), "base": list(meta[k][0]["norm"]), "var": list(tasks[k]["src"])} for k in idx]
    trej, tst, tgen = tlc.judge_traces("TraceC16Tok", trecs, tag="c16.tok", nshards=16, heap="2g")
    ctx.add_states(tst, tgen, "TraceC16Tok: Layout actions preserve the scanner model's token stream")
    ctx.extra["tokens_preserved_model"] = {"variants": len(trecs), "rejected": len(trej)}
    for rj in trej[:10]:
        ctx.drift_note(f"model token stream differs for {meta[int(rj['id'])][1]}: {rj['clause']}")
    rejects, st, gen = tlc.judge_traces("TraceC16", recs, tag="c16.trace", nshards=16)
    ctx.add_states(st, gen, "TraceC16 comparing variants with their base")
    ctx.traces += len(recs)
    for rj in rejects:
        k = int(rj["id"])
        b, acts = meta[k]
        kinds = "+".join(sorted(a["a"] for a in acts))
        # which piece type was touched
        lines = json.loads((work / f"{b['name']}.json").read_text())["lines"]
        touched = "+".join(sorted({lines[a["i"] - 1][a["j"] - 1]["t"] for a in acts if a["j"] > 0 and a["a"] != "inc"}))
        ctx.violation(f"{kinds}/{touched or 'line'}: {rj['clause']}", rj["clause"],
                      {"task": tasks[k], "base": b["name"], "acts": acts, "error": res[k]["err"]})


def replay(ctx, data) -> int:
    o = Pool(1).map("assemble", [data["task"]], timeout=30)[0]
    print(data["task"]["src"])
    print("re-observed:", {k: o[k] for k in ("ok", "err")})
    return 0 if o["ok"] else 1
