"""C07 — data directives emit the exact little-endian bytes of their values.
Design level: GenC07!LELaws and Meaningful (every case has a definite meaning, layout size = bytes).
Conformance (pipeline A): every case program assembled; image and labels judged by TraceAsm."""
from __future__ import annotations

from harness import apr, asmfam, tlc


def keyfn(p, clause, detail):
    for s in p["body"]:
        if s["k"] == "incbin":
            org = next((x["e"]["v"] for x in p["body"] if x["k"] == "stareq" and x["e"]["k"] == "num"), 0)
            return f"{clause}/incbin/len{len(s['bs'])}/org{org:x}"
        if s["k"] == "ascii":
            return f"{clause}/ascii/len{len(s['s'])}"
    ds = [s for s in p["body"][4:] if s["k"] == "data"][:2]
    def vk(e):
        if e["k"] == "num":
            return "neg" if e["v"] < 0 else ("wide" if e["v"] >= 1 << 24 else "n")
        if e["k"] == "big":
            return "bigneg" if e["neg"] else "big"
        return "sym"
    return f"{clause}/" + "+".join(d["d"] + ":" + ",".join(vk(e) for e in d["es"]) for d in ds)


def run(ctx) -> None:
    ctx.rule = ("cases = GenC07: directive kind x value lists of length 1-2 (3 in thorough) over 21 value classes, bank-end "
                "placements, .ascii texts, .incbin lengths around the window size; non-trivial = distinct case programs")
    ctx.trusted = ["TLC 1.8", "spec/Asm.tla data actions + Util!LE", "harness/apr.py renderer"]
    ctx.assumptions = ["literals beyond 31 bits are carried as (hi, lo) and only their residue mod 2^24 is used"]
    rs = tlc.run_sharded("GenC07", "INIT Init\nNEXT Next\nCHECK_DEADLOCK FALSE\nINVARIANT LELaws\nINVARIANT Meaningful\nINVARIANT Emit\n",
                         tag="c07.gen", nshards=1, env={"FULL": 0 if ctx.quick else 1}, heap="3g", workers=1, timeout=7200)
    ctx.add_tlc(rs, "GenC07 case machine: LELaws, Meaningful + vectors")
    progs = [v for r in rs for v in r.printed if isinstance(v, dict) and "body" in v]
    if len(progs) < 500:
        raise tlc.TLCFailure(f"GenC07 produced only {len(progs)} cases")
    # .ascii with an escaped quote: the lexer keeps the string going over \' ; the statement does not say whether the
    # text then contains the backslash, so both readings are accepted — but every quote of the text must be emitted
    def esc_case(src_text, raw, unescaped, org):
        def prog(bs):
            return {"rom": "low", "defines": [], "body": [{"k": "stareq", "e": apr.num(org)}, {"k": "label", "n": "before"},
                    {"k": "ascii", "s": bs, "src": src_text}, {"k": "label", "n": "after"},
                    {"k": "data", "d": "dl", "es": [apr.ident("after")]}]}
        p = prog([ord(c) for c in raw])
        p["_alt"] = prog([ord(c) for c in unescaped])
        return p
    for org in (0x008000, 0x00FFFC):
        progs.append(esc_case("say \\'hi\\'", "say \\'hi\\'", "say 'hi'", org))
        progs.append(esc_case("\\'", "\\'", "'", org))
        progs.append(esc_case("a\\'b", "a\\'b", "a'b", org))
    # characters without an ASCII code emit nothing; the layout must agree (a label follows)
    def ascii_case(src_text, org):
        return {"rom": "low", "defines": [], "body": [{"k": "stareq", "e": apr.num(org)},
                {"k": "ascii", "s": [ord(c) for c in src_text if ord(c) < 128], "src": src_text}, {"k": "label", "n": "after"},
                {"k": "data", "d": "dl", "es": [apr.ident("after")]}, {"k": "ascii", "s": [ord(c) for c in "tail"]}]}
    for org in (0x008000, 0x00FFFA):
        for t in ("caf\u00e9 au lait", "\u00fcber", "Pok\u00e9mon \u4e2d", "\u00e9"):
            progs.append(ascii_case(t, org))
        # a backslash followed by a letter is two characters of text (only \' is special to the lexer)
        for t in ("C:\\new\\names.txt", "a\\nb", "tab\\t0"):
            progs.append(ascii_case(t, org))
    # seeded larger programs rich in data directives
    n = 200 if ctx.quick else 3000
    progs += [apr.gen_program(ctx.seed * 104729 + k, size=12, macros=False) for k in range(n)]
    res = asmfam.observe(progs, timeout=60)
    stats = asmfam.judge(ctx, progs, res, "c07.trace", keyfn, "TraceAsm judging data directive programs")
    ctx.evaluations += len(progs)
    ctx.nontrivial = set(range(len(progs)))
    ctx.exhaustive = True
    ctx.extra["asm_stats"] = stats
    ctx.sample({"source": res[5]["src"], "calls": res[5]["calls"]})


replay = asmfam.replay
