"""C18 — table-encoded text follows the table and round-trips.
Design level: MC_C18 (encoder machine stepped per position over all small tables x strings; greedy
longest match, joker, skipping, size, round trip are invariants).  Conformance: the same tables written
to files and loaded by the real Table class, every string through to_bytes/to_text; programs of
.table/.text/{ } items (GenC18P) assembled; TraceC18 judges."""
from __future__ import annotations

import itertools
import random

from harness import tlc
from harness.pool import Pool

MC = ("INIT Init\nNEXT Next\nCHECK_DEADLOCK FALSE\nINVARIANT GreedyLongest\nINVARIANT UnknownSkipped\nINVARIANT JokerRaw\n"
      "INVARIANT SizeEqualsBytes\nINVARIANT Progress\nINVARIANT RoundTrip\nINVARIANT SingleCharRoundTrip\n")
SYMS = [{"k": "c", "v": "a"}, {"k": "c", "v": "b"}, {"k": "c", "v": "c"}, {"k": "j", "v": 65}]


def random_table(rnd: random.Random) -> list[dict]:
    alphabet = list("abcdeXYZ .!?") + ["<e1>", "<e2>", "<e3>"]      # placeholders of non-ASCII characters (drivers.PLACEHOLDER)
    n = rnd.choice([2, 3, 5, 8, 12])
    used_codes = set()
    ents = []
    for _ in range(n):
        text = [rnd.choice(alphabet) for _ in range(rnd.choice([1, 1, 1, 2, 2, 3]))]
        while True:
            code = tuple(rnd.choice([0, 0, 1, 0x41, 0xFF] + [rnd.randrange(1, 250)] * 6) for _ in range(rnd.choice([1, 1, 2, 3])))
            if rnd.random() < 0.1 or code not in used_codes:
                break
        used_codes.add(code)
        ents.append({"text": text, "code": list(code)})
    return ents


def random_string(rnd: random.Random) -> list[dict]:
    alphabet = list("abcdeXYZ .!?qw") + ["<e1>", "<e2>", "<e3>"]
    out = []
    for _ in range(rnd.choice([0, 1, 3, 6, 12, 25])):
        if rnd.random() < 0.1:
            out.append({"k": "j", "v": rnd.choice([0, 1, 0x41, 0x7F, 0xFF, 0x0A])})
        else:
            out.append({"k": "c", "v": rnd.choice(alphabet)})
    return out


def run(ctx) -> None:
    rnd = random.Random(ctx.seed)
    ms = 4 if ctx.quick else 5
    ctx.rule = ("codec cases = (table, string) pairs: every table of 1..3 menu entries (both orders) x every string of <= N "
                "symbols, plus random larger tables/strings; program cases = every balanced item sequence of GenC18P; "
                "non-trivial = distinct (table, string) and item sequences")
    ctx.trusted = ["TLC 1.8", "spec/Table.tla", "table file / string renderers in harness/drivers.py"]
    ctx.assumptions = ["no backslash escapes or quotes in strings, no table text starting with '[0x', joker bytes <= 0xFF, no empty tables"]
    r = tlc.run("MC_C18", MC, tag="c18.mc", env={"MAXSTR": ms, "GEN": 0}, workers=16, heap="4g")
    ctx.add_tlc(r, f"MC_C18 encoder machine, strings <= {ms}")
    g = tlc.run("MC_C18", "INIT Init\nNEXT Next\nCHECK_DEADLOCK FALSE\nINVARIANT Emit\n", tag="c18.gen", env={"MAXSTR": 0, "GEN": 1})
    ctx.add_tlc(g, "MC_C18 as table generator")
    tables = [v["table"] for v in g.printed if "table" in v]
    if len(tables) < 100:
        raise tlc.TLCFailure("too few tables generated")
    ns = 3 if ctx.quick else 4
    strings = [list(t) for n in range(0, ns + 1) for t in itertools.product(SYMS, repeat=n)]
    tasks = [{"table": t, "strings": strings} for t in tables]
    for _ in range(40 if ctx.quick else 600):
        tasks.append({"table": random_table(rnd), "strings": [random_string(rnd) for _ in range(30)]})
    pool = Pool()
    res = pool.map("table_codec", tasks, timeout=120)
    recs = []
    for k, (t, outs) in enumerate(zip(tasks, res)):
        if isinstance(outs, dict):
            raise tlc.TLCFailure(f"table_codec failed: {outs}")
        runs = [{"s": s, "bytes": o["bytes"], "back": o["back"]} for s, o in zip(t["strings"], outs)]
        recs.append({"id": f"codec{k}", "t": "codec", "table": t["table"], "runs": runs})
        ctx.evaluations += len(runs)
        ctx.nontrivial.add(("codec", k))
    ctx.sample({"table": tasks[0]["table"], "string": strings[-1], "observed": res[0][-1]})
    # programs
    gp = tlc.run("GenC18P", "INIT Init\nNEXT Next\nCHECK_DEADLOCK FALSE\nINVARIANT Emit\n", tag="c18.genp",
                 env={"MAXITEMS": 6 if ctx.quick else 7})
    ctx.add_tlc(gp, "GenC18P item sequences")
    progs = [v for v in gp.printed if "items" in v]
    ptasks = []
    for k, v in enumerate(progs):
        org = 0x008000 if k % 3 else 0x00FFFE   # some programs run across a bank end
        # the two table files swap their contents from one program to the next (one path, different tables, one process)
        tabs = v["tables"] if (k // 2) % 2 == 0 else [v["tables"][1], v["tables"][0]] + v["tables"][2:]
        ptasks.append({"items": v["items"], "tables": tabs, "org": org, "scope_style": ("block", "named", "macro")[k % 3]})
    pres = pool.map("table_program", ptasks, timeout=60)
    for k, (t, o) in enumerate(zip(ptasks, pres)):
        if o.get("hang") or o.get("driver_error"):
            raise tlc.TLCFailure(f"table_program failed: {o}")
        endl = o["endlabel"]
        # the label is a logical address; the statement is about the layout size: normalise through the org's bank
        recs.append({"id": f"prog{k}", "t": "program", "items": t["items"], "tables": t["tables"], "org": t["org"],
                     "obs": {"ok": o["ok"], "bytes": o["bytes"], "endlabel": endl if t["org"] == 0x008000 else unwrap(endl, t["org"])}})
        ctx.evaluations += 1
        ctx.nontrivial.add(("prog", k))
    ctx.sample({"program": pres[1]["src"], "bytes": pres[1]["bytes"]})
    rejects, st, gen = tlc.judge_traces("TraceC18", recs, tag="c18.trace", nshards=16, heap="2g")
    ctx.add_states(st, gen, "TraceC18 judging codec runs and programs")
    ctx.traces += len(recs)
    for rj in rejects:
        if rj["id"].startswith("codec"):
            k = int(rj["id"][5:])
            t = tasks[k]
            f = min(rj["fails"]) - 1
            shape = "/".join(f"{len(e['text'])}c{len(e['code'])}b" for e in t["table"][:4])
            ctx.violation(f"codec:{rj['clause'][:40]}:{shape}", rj["clause"],
                          {"table": t["table"], "string": t["strings"][f], "observed": res[k][f], "kind": "codec"})
        else:
            k = int(rj["id"][4:])
            kinds = "".join(it["k"][0] + (str(it.get("t", "")) if it["k"] == "table" else "") for it in ptasks[k]["items"])
            ctx.violation(f"program:{rj['clause'][:40]}:{kinds}", rj["clause"], {"task": ptasks[k], "observed": pres[k], "kind": "program"})


def unwrap(label: int, org: int) -> int:
    """LoROM: a label past the bank end of org sits in the next bank's window; map it back to org + n.
    (lossless change of coordinates for comparison with org + size; Bus is judged in C04)"""
    if label < 0:
        return label
    bank_org, bank = org >> 16, label >> 16
    return org + ((bank - bank_org) * 0x8000 + (label & 0x7FFF)) - (org & 0x7FFF)


def replay(ctx, data) -> int:
    if data["kind"] == "codec":
        outs = Pool(1).map("table_codec", [{"table": data["table"], "strings": [data["string"]]}], timeout=60)[0]
        rec = {"id": "codec0", "t": "codec", "table": data["table"],
               "runs": [{"s": data["string"], "bytes": outs[0]["bytes"], "back": outs[0]["back"]}]}
        print("re-observed:", outs)
    else:
        t = data["task"]
        o = Pool(1).map("table_program", [t], timeout=60)[0]
        print(o["src"], "\nre-observed:", {k: o[k] for k in ("ok", "bytes", "endlabel", "err")})
        rec = {"id": "prog0", "t": "program", "items": t["items"], "tables": t["tables"], "org": t["org"],
               "obs": {"ok": o["ok"], "bytes": o["bytes"], "endlabel": o["endlabel"] if t["org"] == 0x008000 else unwrap(o["endlabel"], t["org"])}}
    rejects, _, _ = tlc.judge_traces("TraceC18", [rec], tag="c18.replay", nshards=1)
    print("TLC verdict:", rejects or "accepted")
    return 1 if rejects else 0
