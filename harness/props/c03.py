"""C03 — output holds exactly the emitted bytes at their mapped ROM offsets (Asm, Bus).
Conformance: seeded programs (all statement kinds, nesting, *= / @= moves incl. bank ends and RAM
relocation, LoROM/HiROM/.map buses) assembled with a recording writer; the ordered (offset, byte)
image is judged by TraceAsm against Asm!Spec."""
from __future__ import annotations

from harness import apr, asmfam, tlc


def keyfn(p, clause, detail):
    body = p["body"][1:]
    if len(body) <= 6:   # TLC-enumerated small program: the statement kinds in order identify the class
        sig = ",".join(s["k"] + (hex(s["e"]["v"])[2:] if s["k"] in ("stareq", "ateq") else "") for s in body)
        return f"{clause}/small:{sig}"
    kinds = sorted({s["k"] for s in body if s["k"] in ("stareq", "ateq", "incbin", "for", "apply", "scope", "map")})
    return f"{clause}/{p['rom']}/{'+'.join(kinds)}"


def programs(ctx, n):
    progs = []
    for k in range(n):
        seed = ctx.seed * 1000003 + k
        progs.append(apr.gen_program(seed, size=10 + k % 12))
    return progs


def run(ctx) -> None:
    ctx.rule = ("programs = every program of <= 4 (quick) / 6 (thorough) statements over the position-move alphabet of MC_Asm "
                "(*= / @= to coinciding ROM, bank-end and RAM addresses, data, labels, blocks) + seeded APR trees of the definite class (10-22 top-level statements, nesting <= 3); "
                "non-trivial = programs the spec gives a meaning (outcome ok/fail) with at least one position move "
                "or bank crossing")
    ctx.trusted = ["TLC 1.8", "spec/Asm.tla + Bus.tla + Instr.tla", "harness/apr.py renderer"]
    ctx.assumptions = ["programs the statements give no meaning (spec outcome 'unspec') are counted, not judged"]
    from harness.props import asm_mc
    L = 4 if ctx.quick else 6
    asm_mc.design_level(ctx, "moves", L)
    tlc_progs = asm_mc.programs(ctx, "moves", L)
    # a *= to exactly the address that @=-relocated code has reached, followed by more bytes (one statement deeper)
    asm_mc.design_level(ctx, "moves2", 5 if ctx.quick else 6)
    tlc_progs += asm_mc.programs(ctx, "moves2", 5 if ctx.quick else 6)
    # a *= whose target is RAM after ROM positions (spec outcome "either": refused, or stored after the previous bytes)
    asm_mc.design_level(ctx, "ramstar", 4 if ctx.quick else 5)
    tlc_progs += asm_mc.programs(ctx, "ramstar", 4 if ctx.quick else 5)
    progs = tlc_progs + programs(ctx, 400 if ctx.quick else 6000)
    ctx.extra["tlc_enumerated_programs"] = len(tlc_progs)
    res = asmfam.observe(progs)
    stats = asmfam.judge(ctx, progs, res, "c03.trace", keyfn, "TraceAsm judging writer images")
    ctx.evaluations += len(progs)
    for k, p in enumerate(progs):
        if any(s["k"] in ("stareq", "ateq") for s in p["body"][1:]) or any(s["k"] == "incbin" for s in p["body"]):
            ctx.nontrivial.add(k)
    ctx.extra["asm_stats"] = stats
    ctx.sample({"source": res[0]["src"], "calls": res[0]["calls"][:3], "labels": res[0]["labels"][:5]})


replay = asmfam.replay
