"""C20 — legacy conversions agree with the mapping.  Design level: MC_C20 (closed forms vs Bus).
Conformance: the four real functions evaluated over the full 4 MiB range, recorded as affine
runs, judged by TraceC20."""
from __future__ import annotations

import random

from harness import tlc
from harness.pool import Pool

SPACE = 4 * 1024 * 1024


def run(ctx) -> None:
    ctx.rule = ("records = maximal affine runs of rom_to_snes (with snes_to_rom of each result) over all offsets "
                "< 4 MiB in the three modes + pointer-formula samples; non-trivial = distinct (mode, 32K block) "
                "and pointer cases")
    ctx.trusted = ["TLC 1.8", "spec/Legacy.tla + spec/Bus.tla", "harness/drivers.py run-length recorder"]
    cfg = "INIT Init\nNEXT Next\nINVARIANT Agree\nINVARIANT Pointer\nCHECK_DEADLOCK FALSE\n"
    rs = tlc.run_sharded("MC_C20", cfg, tag="c20.mc", nshards=16, env={"OFFSETS": "sample" if ctx.quick else "all"})
    ctx.add_tlc(rs, "MC_C20 closed forms vs Bus")

    pool = Pool()
    step = 0x20000
    tasks = [{"mode": m, "start": s, "end": s + step - 1} for m in ("low", "low2", "high") for s in range(0, SPACE, step)]
    res = pool.map("legacy_runs", tasks, timeout=120, batch=1)
    recs = []
    for t, segs in zip(tasks, res):
        if isinstance(segs, dict):
            raise tlc.TLCFailure(f"driver failed: {segs}")
        for s in segs:
            s["id"] = f"{s['mode']}/r2s/{s['start']}"
            recs.append(s)
            ctx.nontrivial.add((s["mode"], s["start"] >> 15))
    ctx.evaluations += 3 * SPACE
    rnd = random.Random(ctx.seed)
    bases = [0, 1, 0x7FFF, 0x8000, 0x12345, 0x1FFFFF, 0x200000, 0x37FFFF, 0x3F0000]
    ps = [0, 1, 0x7FFF, 0x8000, 0xFFFF, 0x10000]
    pairs = [(b, p) for b in bases for p in ps if b + p < SPACE] + \
            [(rnd.randrange(0, SPACE // 2), rnd.randrange(0, SPACE // 2)) for _ in range(200 if ctx.quick else 5000)]
    rel = [(b, lo, hi) for b in (0, 0x8000, 0x123456) for lo in (0, 1, 0x7F, 0x80, 0xFF) for hi in (0, 1, 0x80, 0xFF)]
    out = pool.map("legacy_pointers", [{"pairs": pairs, "rel": rel}], timeout=120)[0]
    for r in out:
        r["id"] = f"{r['t']}/{r['base']}/{r.get('p', (r.get('lo'), r.get('hi')))}"
        recs.append(r)
        ctx.nontrivial.add(r["id"])
    ctx.evaluations += len(out)
    ctx.sample(recs[0])
    ctx.sample(out[0])
    byid = {r["id"]: r for r in recs}
    rejects, st, gen = tlc.judge_traces("TraceC20", recs, tag="c20.trace", nshards=16,
                                        env={"POINTS": "sample" if ctx.quick else "all"})
    ctx.add_states(st, gen, "TraceC20 judging recorded conversions")
    ctx.traces += len(recs)
    ctx.exhaustive = not ctx.quick
    for rj in rejects:
        r = byid[rj["id"]]
        key = f"{r.get('mode', r['t'])}/{r['t']}"
        ctx.violation(key, rj["clause"], {"record": r, "judge": "TraceC20"})


def replay(ctx, data) -> int:
    rec = data["record"]
    pool = Pool(1)
    if rec["t"] == "r2s":
        now = pool.map("legacy_runs", [{"mode": rec["mode"], "start": rec["start"], "end": rec["end"]}], timeout=120)[0]
    else:
        now = [rec]
    for k, r in enumerate(now):
        r["id"] = f"replay{k}"
    rejects, _, _ = tlc.judge_traces("TraceC20", now, tag="c20.replay", nshards=1, env={"POINTS": "all"})
    print("re-observed:", now[:3])
    print("TLC verdict:", rejects or "accepted")
    return 1 if rejects else 0
