"""C17 — errors point at the statement that caused them.
Design level: ErrLoc (the required location is a function of the physical lines before the statement in
its own file; LocationLaw checked by TLC over all preambles).  Conformance (pipeline A): GenC17 enumerates
every preamble of <= 2 (quick) / 3 items (blank lines, comments, multi-line comments, blocks, macro
definitions, scopes, data) x 7 fault kinds x indentation x position of the statement in the file
(followed by more / last line / no final newline) x main or included file; the error text is searched
tolerantly for file:line[:col] and the line's text; TraceC17 judges."""
from __future__ import annotations

from harness import tlc
from harness.pool import Pool


def run(ctx) -> None:
    mp = 2 if ctx.quick else 3
    ctx.rule = (f"cases = every preamble of <= {mp} of 17 item kinds x 10 fault kinds x 2 indentations x 3 tails x main/included, through the string API and (sampled) Program.assemble; "
                "non-trivial = distinct cases")
    ctx.trusted = ["TLC 1.8", "spec/ErrLoc.tla", "tolerant file:line[:col] extraction (regex) in harness/drivers.py"]
    ctx.assumptions = ["zero-based lines and columns as the statement says; any file:line[:col] occurrence with the right numbers counts"]
    g = tlc.run("GenC17", "INIT Init\nNEXT Next\nCHECK_DEADLOCK FALSE\nINVARIANT Law\nINVARIANT Emit\n", tag="c17.gen",
                env={"MAXPRE": mp}, heap="3g")
    ctx.add_tlc(g, f"GenC17: LocationLaw + cases, preambles <= {mp}")
    # the line/column law on the character-level scanner model: every token is stamped with the line and
    # column of its first character, for every input of <= 4/5 characters over two alphabets
    from harness import scanmc
    scanmc.design(ctx, 4 if ctx.quick else 6, families=("operands", "misc"))
    scanmc.refute_old_size_error(ctx)
    vecs = [v for v in g.printed if isinstance(v, dict) and "c" in v]
    if len(vecs) < 500:
        raise tlc.TLCFailure("GenC17 produced too few cases")
    tasks = [{"main": v["c"]["main"], "part": v["c"]["part"], "final_newline": v["c"]["final_newline"], "text": v["c"]["req"]["text"]} for v in vecs]
    # the same cases through the file API (Program.assemble): all with characters that other line-splitting conventions
    # treat as line ends or lines ending in a bare 0, and a sample of the rest
    nstr = len(tasks)
    for k, v in enumerate(list(vecs)):
        if any(x in ("ffc", "vtstr", "zeroend", "localdef") for x in v["pre"]) or (k + ctx.seed) % (5 if ctx.quick else 2) == 0:
            tasks.append(dict(tasks[k], entry="file"))
            vecs.append(dict(v, entry="file"))
    res = Pool().map("errloc_case", tasks, timeout=30)
    recs = []
    for k, (v, o) in enumerate(zip(vecs, res)):
        if o.get("hang"):
            ctx.violation(f"hang:{v['fault']}", "did not terminate", {"case": v})
            continue
        if o.get("driver_error") or o.get("crash"):
            raise tlc.TLCFailure(f"errloc_case failed: {o}")
        recs.append({"id": str(k), "ok": o["ok"], "locs": o["locs"], "has_text": o["has_text"], "req": v["c"]["req"]})
        ctx.evaluations += 1
        ctx.nontrivial.add(k)
    ctx.sample({"main.s": vecs[50]["c"]["main"], "required": vecs[50]["c"]["req"], "error_text": res[50]["err"]})
    rejects, st, gen = tlc.judge_traces("TraceC17", recs, tag="c17.trace", nshards=16)
    ctx.add_states(st, gen, "TraceC17 judging reported locations")
    ctx.traces += len(recs)
    ctx.exhaustive = True
    for rj in rejects:
        v = vecs[int(rj["id"])]
        o = res[int(rj["id"])]
        kind = rj["clause"].split("(")[0].strip()
        ctx.violation(f"{v['fault']}/{v['where']}/{v['tail']}{'/file-api' if v.get('entry') else ''}: {kind[:48]}", rj["clause"],
                      {"task": tasks[int(rj["id"])], "required": v["c"]["req"], "error_text": o["err"], "locs": o["locs"], "pre": v["pre"]})


def replay(ctx, data) -> int:
    o = Pool(1).map("errloc_case", [data["task"]], timeout=30)[0]
    print("\n".join(data["task"]["main"]))
    print("required:", data["required"])
    print("error text now:", o["err"])
    rec = {"id": "0", "ok": o["ok"], "locs": o["locs"], "has_text": o["has_text"], "req": data["required"]}
    rejects, _, _ = tlc.judge_traces("TraceC17", [rec], tag="c17.replay", nshards=1)
    print("TLC verdict:", rejects or "accepted")
    return 1 if rejects else 0
