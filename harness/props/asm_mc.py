"""Small-scope exploration of the Asm module with TLC (MC_Asm): design-level invariants on every
program of <= L statements over a focus alphabet, the pinned-design spec mutant, and the same
programs streamed out as vectors for pipeline A."""
from harness import tlc

CFG = "INIT Init\nNEXT Next\nCHECK_DEADLOCK FALSE\nINVARIANT Design\n"


_CACHE: dict = {}


def design_level(ctx, family: str, maxlen: int) -> None:
    """one exploration checks the Design invariant on every program and streams the programs (kept for programs())"""
    rs = tlc.run_sharded("MC_Asm", CFG + "INVARIANT Emit\n", tag=f"{ctx.prop.lower()}.mc.{family}", nshards=16, heap="2g",
                         env={"MAXLEN": maxlen, "FAMILY": family, "EMIT": 1, "PHASECHECK": 1}, timeout=14400)
    ctx.add_tlc(rs, f"MC_Asm family={family} all programs <= {maxlen} statements: Design invariant (+ programs streamed)")
    _CACHE[(family, maxlen)] = [p for r in rs for p in r.printed if isinstance(p, dict) and "body" in p]


def refute_pinned(ctx) -> None:
    """spec mutant: without the phase check (pinned design) TLC must find the shadowing counter-example"""
    m = tlc.run("MC_Asm", CFG, tag=f"{ctx.prop.lower()}.mutant", workers=8, heap="3g", allow_violation=True,
                env={"MAXLEN": 5, "FAMILY": "labels", "EMIT": 0, "PHASECHECK": 0, "SHARD": 0, "NSHARDS": 1})
    if m.violated != "Design":
        raise tlc.TLCFailure("spec mutant PHASECHECK=0 was not refuted: the Design invariant is vacuous")
    ctx.note("spec mutant PHASECHECK=0 (pinned design) refuted by TLC: Design violated, as required")


def programs(ctx, family: str, maxlen: int) -> list[dict]:
    if (family, maxlen) in _CACHE:
        progs = _CACHE.pop((family, maxlen))
        if len(progs) < 100:
            raise tlc.TLCFailure(f"MC_Asm generator produced only {len(progs)} programs")
        return progs
    rs = tlc.run_sharded("MC_Asm", "INIT Init\nNEXT Next\nCHECK_DEADLOCK FALSE\nINVARIANT Emit\n",
                         tag=f"{ctx.prop.lower()}.gen.{family}", nshards=16, heap="2g",
                         env={"MAXLEN": maxlen, "FAMILY": family, "EMIT": 1, "PHASECHECK": 1}, timeout=7200)
    ctx.add_tlc(rs, f"MC_Asm family={family} as generator (<= {maxlen})")
    progs = [p for r in rs for p in r.printed if isinstance(p, dict) and "body" in p]
    if len(progs) < 100:
        raise tlc.TLCFailure(f"MC_Asm generator produced only {len(progs)} programs")
    return progs
