"""C12 — file and command-line front ends agree with the in-memory assembler.
Design level: FrontDefs file relations checked on constructed examples (MC_C12).  Conformance (pipeline A):
GenC12 enumerates the whole option lattice (format x mapping x copier header x defines x entry point); a
family of programs valid under each mapping is assembled through the front end and in memory; TraceC12
reads the output file with the Ips reader / as a flat image and relates it to the in-memory image."""
from __future__ import annotations

import re

from harness import tlc
from harness.pool import Pool

ORG = {"low": (0x008000, 0x01FFFD, 0x028000), "low2": (0x808000, 0x81FFFD, 0x828000), "high": (0xC00000, 0xC0FFFD, 0xC10000)}
DEFS = [{}, {"DEFV": 0x1234}, {"DEFV": 0x8001, "DEFF": 1, "DEFN": -0x10, "DEFZ": 0}]
# the text each value is given as on the command line (decimal, hexadecimal, signed)
DEF_TEXTS = [{}, {"DEFV": "4660"}, {"DEFV": "0x8001", "DEFF": "1", "DEFN": "-0x10", "DEFZ": "0"}]


EMPTY = -1     # program index of the source that emits no byte at all (definitions and a label only)


def label_names(ndef: int, k: int) -> list[str]:
    """the label definitions the template makes outside loop iterations, with multiplicity (by construction)"""
    if k == EMPTY:
        return ["start"]
    names = ["start", "start_alias"] + (["flagged"] if ndef >= 2 else []) + ["local", "local"]
    names += {1: [], 2: ["entry", "entry2"], 3: ["inner"], 0: []}[k % 4]
    names += ["edge", "crossed"] + (["ram_code"] if k % 2 else []) + ["after"]
    return sorted(names)


def program(mapping: str, ndef: int, k: int) -> str:
    a, edge, other = ORG[mapping]
    if k == EMPTY:
        return f"*=0x{a:06x}\nstart:\nvalue = 5\nother := 6\n"
    # (two labels at one address; a TAB inside a string)
    lines = []
    if k % 4 == 0:
        # the source declares its own mapping (covering every address the template uses)
        lines += {"high": [".map identifier=1 bank_range=0xc0, 0xff addr_range=0x0000, 0xffff mask=0x10000"]}.get(mapping, [
            ".map identifier=1 bank_range=0x00, 0x3f addr_range=0x8000, 0xffff mask=0x8000 mirror_bank_range=0x80, 0xbf"])
        lines += [".map identifier=2 bank_range=0x7e, 0x7f addr_range=0x0000, 0xffff mask=0x10000 writable=1"]
    lines += [f"*=0x{a:06x}", "start:", "start_alias:", "lda.w #0x1234", "sta.l start", ".ascii 'A\tB'"]
    if ndef >= 1:
        lines += [".dw DEFV", "lda.w #DEFV + 1", "derived = DEFV & 0xff", ".db derived"]
    if ndef >= 2:
        lines += [".if DEFF {", ".db 0x11", "flagged:", "} else {", ".db 0x22", "}", ".db DEFN + 0x20",
                  ".if DEFZ {", ".db 0x33", "} else {", ".db 0x44", "}", ".db DEFZ + 3"]
    else:
        lines += [".if UNDEFINED_FLAG {", ".db 0x11", "} else {", ".db 0x22", "}"]
    lines += [".macro put(v) {", "local:", ".dl v", ".dw local", "}", "put(start)", "put(after)"]
    if k % 4 == 1:
        lines += [".for i := 0, 3 {", "inloop:", ".db i", "}"]
    if k % 4 == 2:
        # the same scope name used twice: two scopes, each label definition is one definition
        lines += [".scope tools {", "entry:", "rtl", "}", "jsr.l tools.entry", ".scope tools {", "entry2:", "rts", "}", "jsr.l tools.entry2"]
    if k % 4 == 3:
        lines += [".ascii 'front end'", "{", "inner:", ".dl inner", "}"]
    sections = [[f"*=0x{edge:06x}", "edge:", ".dl edge", "crossed:", ".dl crossed"]]
    if k % 2:
        sections.append([f"*=0x{other + 0x10 * k:06x}", "@=0x7e2000", "ram_code:", "lda.l ram_code", ".dl ram_code"])
    sections.append([f"*=0x{a + 0x40:06x}", "after:", ".db 0xAA"])   # overwrites part of the first block: last write wins
    sections.append([f"*=0x{other + 0x8000:06x}", ".db 0x5a"])           # a high block
    # two blocks that overlap, the later one starting lower (file order decides, not offset order)
    sections.append([f"*=0x{other + 0x9004:06x}", ".db 1, 2, 3, 4", f"*=0x{other + 0x9000:06x}", ".db 9, 9, 9, 9, 9, 9", f"*=0x{other + 0x9003:06x}", ".db 7, 7"])
    # a block written again, unchanged, after another block overwrote part of it
    sections.append([f"*=0x{other + 0xA000:06x}", ".db 1, 2, 3, 4", f"*=0x{other + 0xA002:06x}", ".db 0x99, 0x98, 0x97, 0x96", f"*=0x{other + 0xA000:06x}", ".db 1, 2, 3, 4"])
    # a block of zero bytes that overwrites part of an earlier block, and one that is the highest block of the image
    sections.append([f"*=0x{other + 0xB000:06x}", ".db 5, 6, 7, 8", f"*=0x{other + 0xB001:06x}", ".db 0, 0"])
    sections.append([f"*=0x{other + 0xF000:06x}", ".db 0, 0, 0"])
    # the order in which the positions are visited rotates with k (ascending, middle-low-high, high first, ...)
    r = (k // 2) % len(sections)
    for sec in sections[r:] + sections[:r]:
        lines += sec
    return "\n".join(lines) + "\n"


def run(ctx) -> None:
    nprog = 4 if ctx.quick else 12
    ctx.rule = ("cases = every point of GenC12's lattice (2 formats x 3 mappings x header x 0-2 defines x entry point "
                f"assemble/patch/cli) x {nprog} programs valid under the mapping; non-trivial = distinct (lattice point, program)")
    ctx.trusted = ["TLC 1.8", "spec/FrontDefs.tla + Ips.tla", "program templates in harness/props/c12.py", "tolerant symbol-file line parser"]
    ctx.assumptions = ["-D values are decimal or 0x hexadecimal integers, optionally signed", "the copier header applies to the IPS format only"]
    m = tlc.run("MC_C12", "INIT Init\nNEXT Next\nCHECK_DEADLOCK FALSE\nINVARIANT Relations\n", tag="c12.mc", workers=4)
    ctx.add_tlc(m, "MC_C12: file relations consistent with the writer as specified (and not vacuous)")
    g = tlc.run("GenC12", "INIT Init\nNEXT Next\nCHECK_DEADLOCK FALSE\nINVARIANT Emit\n", tag="c12.gen")
    ctx.add_tlc(g, "GenC12 option lattice")
    points = [c for c in g.printed if isinstance(c, dict) and "mapping" in c]
    if len(points) < 30:
        raise tlc.TLCFailure("GenC12 produced too few lattice points")
    tasks, meta = [], []
    for pt in points:
        for k in list(range(nprog)) + [EMPTY]:
            defs = DEFS[pt["ndef"]]
            src = program(pt["mapping"], pt["ndef"], k)
            tasks.append({"entry": pt["entry"], "src": src, "format": pt["format"], "mapping": pt["mapping"], "header": pt["header"],
                          "defines": defs, "define_texts": DEF_TEXTS[pt["ndef"]], "symfile": True, "assemble_takes_mapping": True,
                          # every other program reaches Program.assemble with the mapping set on the resolver instead of passed
                          "via_rom_type": pt["entry"] == "assemble" and k % 2 == 1})
            pre = "".join(f"{n} := {v}\n" for n, v in defs.items())
            tasks.append({"entry": "string", "src": pre + src, "mapping": pt["mapping"]})
            meta.append((pt, k))
    res = Pool().map("run_entry", tasks, timeout=90, batch=6)
    recs = []
    for j, (pt, k) in enumerate(meta):
        fe, mem = res[2 * j], res[2 * j + 1]
        for o in (fe, mem):
            if o.get("hang") or o.get("driver_error") or o.get("crash"):
                raise tlc.TLCFailure(f"run_entry failed on {pt}: {o}")
        rec = {"id": str(j), "format": pt["format"], "header": pt["header"], "status": fe["status"], "raised": fe["raised"],
               "mem": {"ok": mem["returned"] == "none" and not mem["raised"], "calls": mem.get("calls", []), "labels": mem.get("labels", [])}}
        if fe["out"] is not None:
            rec["file"] = fe["out"]
        if fe.get("sym") is not None:
            ents = []
            names = set(label_names(pt["ndef"], k)) | {"inloop"}
            for line in fe["sym"].splitlines():
                m = re.match(r"^\s*([0-9a-fA-F]+)\s*:\s*([0-9a-fA-F]+)\s+(\S+)\s*$", line)
                if m:
                    ents.append([m.group(3), int(m.group(1), 16), int(m.group(2), 16)])
                    continue
                # any other line format: a known label name plus a bank and an offset as hexadecimal numbers
                words = re.findall(r"[A-Za-z_][A-Za-z0-9_.]*", line)
                nm = next((w for w in words if w in names), None)
                nums = [int(x, 16) for x in re.findall(r"(?<![A-Za-z_])(?:0x|\$)?([0-9a-fA-F]{1,6})(?![A-Za-z_0-9])", line)]
                if nm and len(nums) >= 2:
                    ents.append([nm, nums[0], nums[1]])
            rec["sym"] = ents
            rec["names"] = label_names(pt["ndef"], k)
        recs.append(rec)
        ctx.evaluations += 1
        ctx.nontrivial.add((pt["format"], pt["mapping"], pt["header"], pt["ndef"], pt["entry"], k))
    ctx.sample({"lattice_point": meta[0][0], "source": tasks[0]["src"][:400], "status": res[0]["status"], "file_len": len(res[0]["out"] or [])})
    rejects, st, gen = tlc.judge_traces("TraceC12", recs, tag="c12.trace", nshards=16, heap="3g")
    ctx.add_states(st, gen, "TraceC12 relating output files to in-memory images")
    ctx.traces += len(recs)
    ctx.exhaustive = True
    for rj in rejects:
        j = int(rj["id"])
        pt, k = meta[j]
        fe, mem = res[2 * j], res[2 * j + 1]
        key = f"{pt['entry']}/{pt['format']}/{pt['mapping']}/hdr={int(pt['header'])}/ndef={pt['ndef']}: {rj['clause'][:50]}"
        ctx.violation(key, rj["clause"][:300], {"task": tasks[2 * j], "point": pt, "k": k,
                                                "front_end": {kk: fe.get(kk) for kk in ("status", "raised", "err", "log")},
                                                "in_memory": {kk: mem.get(kk) for kk in ("returned", "raised", "err")}})


def replay(ctx, data) -> int:
    o = Pool(1).map("run_entry", [data["task"]], timeout=90)[0]
    print(data["task"]["src"])
    print("re-observed:", {kk: o.get(kk) for kk in ("status", "raised", "err", "log")})
    return 1 if (o["raised"] or o["status"] != 0) else 0
