"""C02 — every label equals the address where the next byte is really emitted.
Design level: MC_Asm family 'labels' (all programs <= L statements: labels, inferred-width and explicit
operands over a name that may be a constant, a label or shadowed, data, blocks, named scopes, a bank-end
*= and a RAM @=): SizeAgreement and LabelIsEmitAddress on every program; the pinned design (no phase
check) is a spec mutant TLC must refute.  Conformance: the same programs and seeded larger ones
assembled; labels (get_all_labels + `.dl label` bytes in the image) judged by TraceAsm."""
from __future__ import annotations

from harness import apr, asmfam
from harness.props import asm_mc


def keyfn(p, clause, detail):
    body = p["body"][1:]
    if len(body) <= 6:
        def sig(s):
            if s["k"] in ("block", "scope"):
                return s["k"][0] + "{" + ",".join(sig(x) for x in s["b"]) + "}"
            if s["k"] == "op":
                return ("lda" if s["sfx"] == "" else "lda." + s["sfx"]) if s["mn"] == "lda" else s["mn"]
            if s["k"] in ("label", "assign", "sym"):
                return s["k"] + ":" + s["n"]
            return s["k"]
        return f"{clause}/small:" + ",".join(sig(s) for s in body)
    kinds = sorted({s["k"] for s in body if s["k"] in ("stareq", "ateq", "incbin", "for", "apply", "scope", "block", "map")})
    return f"{clause}/{p['rom']}/{'+'.join(kinds)}"


def run(ctx) -> None:
    L = 4 if ctx.quick else 6
    ctx.rule = (f"programs = every program of <= {L} statements over the 'labels' alphabet of MC_Asm + seeded APR trees with "
                "macros, loops, scopes, moves; non-trivial = programs with at least one label followed by an emitting statement "
                "that the spec gives a meaning")
    ctx.trusted = ["TLC 1.8", "spec/Asm.tla + Bus.tla + Instr.tla", "harness/apr.py renderer"]
    ctx.assumptions = ["a size that differs between the label pass and emission must make the assembly fail (a fix-point "
                       "resolver that makes both agree would need the spec to be extended)",
                       "programs with spec outcome 'unspec' are counted, not judged"]
    asm_mc.design_level(ctx, "labels", L)
    asm_mc.refute_pinned(ctx)
    progs = asm_mc.programs(ctx, "labels", L)
    # the shadowing family: a name that is a constant outside and a label inside, over a small alphabet, one statement deeper
    B = 4 if ctx.quick else 5
    asm_mc.design_level(ctx, "shadow", B + 1)
    progs += asm_mc.programs(ctx, "shadow", B + 1)
    # shadowing inside a loop body (labels of loop iterations are position-derived symbols too)
    asm_mc.design_level(ctx, "shadowloop", B + 1)
    progs += asm_mc.programs(ctx, "shadowloop", B + 1)
    # named scopes inside loop iterations (each iteration exports its own labels)
    asm_mc.design_level(ctx, "loopscope", B + 2)
    progs += asm_mc.programs(ctx, "loopscope", B + 2)
    # ... and the same under @= relocation (RAM and ROM run addresses)
    asm_mc.design_level(ctx, "shadowram", B + 2)
    progs += asm_mc.programs(ctx, "shadowram", B + 2)
    # labels whose names differ only in letter case
    asm_mc.design_level(ctx, "caselabels", B + 1)
    progs += asm_mc.programs(ctx, "caselabels", B + 1)
    ctx.extra["tlc_enumerated_programs"] = len(progs)
    n = 500 if ctx.quick else 8000
    progs += [apr.gen_program(ctx.seed * 7919 + k, size=8 + k % 16) for k in range(n)]
    res = asmfam.observe(progs)
    stats = asmfam.judge(ctx, progs, res, "c02.trace", keyfn, "TraceAsm judging labels and images")
    ctx.evaluations += len(progs)

    # per-node addresses of the label pass vs emission through the documented NodeProtocol (observe_at),
    # on the seeded programs and a sample of the enumerated ones
    from harness.pool import Pool
    from harness import tlc
    sample = progs[-n:] + progs[: (3000 if ctx.quick else 60000)]
    nres = Pool().map("asm_prog_nodes", [{"prog": p} for p in sample], timeout=30)
    nrecs = []
    for k, (p, o) in enumerate(zip(sample, nres)):
        if o.get("hang") or o.get("driver_error") or o.get("crash"):
            continue
        if o.get("untraced"):
            ctx.extra["nodes_untraced"] = ctx.extra.get("nodes_untraced", 0) + o["untraced"]
        decls = [s_["decl"] for s_ in p["body"] if s_["k"] == "map"]
        nrecs.append({"id": str(k), "ok": o["ok"], "nodes": o["nodes"], "rom": p["rom"], "decls": decls})
    nrej, nst, ngen = tlc.judge_traces("TraceC02N", nrecs, tag="c02.nodes", nshards=16)
    ctx.add_states(nst, ngen, "TraceC02N: per-node label-pass address/size vs emission")
    ctx.traces += len(nrecs)
    ctx.extra["node_traces"] = {"programs": len(nrecs), "nodes": sum(len(r["nodes"]) for r in nrecs)}
    if ctx.extra["node_traces"]["nodes"] == 0 or ctx.extra.get("nodes_untraced"):
        ctx.note(f"per-node tracing through NodeProtocol incomplete ({ctx.extra.get('nodes_untraced', 0)} nodes could not be wrapped, "
                 f"{ctx.extra['node_traces']['nodes']} traced): the second formulation of C02 was decided on the traced nodes only")
    for rj in nrej:
        p = sample[int(rj["id"])]
        ctx.violation("nodes/" + keyfn(p, "size", ""), "size given in the label pass differs from the bytes emitted: " + rj["clause"],
                      {"prog": p, "clause": rj["clause"]})

    def nontrivial(p):
        flat = []
        def walk(ss):
            for s in ss:
                flat.append(s["k"])
                for key in ("b", "t", "f", "body"):
                    if key in s and isinstance(s[key], list):
                        walk(s[key])
        walk(p["body"])
        for a, b in zip(flat, flat[1:]):
            if a == "label" and b in ("op", "data", "ascii", "incbin", "branch"):
                return True
        return False
    for k, p in enumerate(progs):
        if nontrivial(p):
            ctx.nontrivial.add(k)
    ctx.extra["asm_stats"] = stats
    ctx.sample({"source": res[-1]["src"], "labels": res[-1]["labels"][:6], "calls": res[-1]["calls"][:2]})


replay = asmfam.replay
