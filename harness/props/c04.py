"""C04 — address mapping laws.  Design level: MC_C04 (laws on the Bus module).  Conformance:
the real Bus/Address objects evaluated over all 2^24 addresses of both built-in maps (lossless
affine-run recording), boundary increments, chained increments and TLC-generated `.map`
configurations; every record judged by TraceC04."""
from __future__ import annotations

from harness import tlc
from harness.pool import Pool

INCS = [0, 1, 2, 3, 0x7FFF, 0x8000, 0x8001, 0xFFFF, 0x10000, 0x12345]
EDGE_OFFS = [0, 1, 2, 0x1234, 0x7FFD, 0x7FFE, 0x7FFF, 0x8000, 0x8001, 0x8002, 0xABCD, 0xFFFD, 0xFFFE, 0xFFFF]


def design_level(ctx) -> None:
    cfg = "INIT Init\nNEXT Next\nINVARIANT Laws\nINVARIANT BuiltinShape\nCHECK_DEADLOCK FALSE\n"
    offs = "sample" if ctx.quick else "all"
    rs = tlc.run_sharded("MC_C04", cfg, tag="c04.mc", nshards=16, env={"OFFSETS": offs}, heap="1g")
    ctx.add_tlc(rs, f"MC_C04 bus laws, offsets={offs}")


def apalache_adjunct(ctx) -> None:
    """Adjunct, not relied upon: the advance law for ARBITRARY single ROM declarations, all 2^24 addresses and all
    increments up to 0x20000, discharged symbolically by Apalache on spec/apalache/BusApa.tla."""
    import shutil
    import subprocess
    import time
    from harness.core import OUT, VERIF
    if not shutil.which("apalache-mc"):
        ctx.note("apalache-mc not found: symbolic adjunct skipped")
        return
    out = OUT / "apalache"
    shutil.rmtree(out, ignore_errors=True)
    t0 = time.time()
    try:
        p = subprocess.run(["apalache-mc", "check", "--length=0", "--inv=Law", f"--out-dir={out}", "BusApa.tla"],
                           cwd=VERIF / "spec" / "apalache", capture_output=True, text=True, timeout=600)
    except subprocess.TimeoutExpired:
        ctx.note("apalache adjunct timed out (skipped)")
        return
    ok = "The outcome is: NoError" in p.stdout
    ctx.extra["apalache_adjunct"] = {"module": "spec/apalache/BusApa.tla", "invariant": "Law", "outcome": "NoError" if ok else "see log",
                                     "wall_s": round(time.time() - t0, 1)}
    shutil.rmtree(out, ignore_errors=True)
    if not ok:
        raise tlc.TLCFailure("Apalache refuted BusApa!Law (the specification's own advance law): " + p.stdout[-500:])
    ctx.note("Apalache: advance law holds for arbitrary single ROM declarations, all addresses, increments <= 0x20000 (symbolic)")


def collect(ctx) -> list[dict]:
    pool = Pool()
    recs: list[dict] = []

    def tagged(busname, decls, lst, prefix):
        for k, r in enumerate(lst):
            r["busname"] = busname
            r["decls"] = decls
            r["id"] = f"{prefix}/{r['t']}/{r.get('start', r.get('a'))}/{r.get('n', '')}"
            recs.append(r)

    for busname in ("low", "high"):
        # physical over all 2^24 addresses
        segs = pool.map("bus_bank_segments", [{"bus": busname, "bank": b} for b in range(256)], timeout=120, batch=4)
        ctx.evaluations += 256 * 65536
        tagged(busname, [], [s for bank in segs for s in bank], busname)
        # advance by 1 (and, thorough, by 2 and 3) over all addresses
        for n in ([1] if ctx.quick else [1, 2, 3, 0x8000]):
            adv = pool.map("bus_bank_advance", [{"bus": busname, "bank": b, "n": n} for b in range(256)],
                           timeout=120, batch=4)
            ctx.evaluations += 256 * 65536
            tagged(busname, [], [s for bank in adv for s in bank], busname)
        # boundary increments at window edges of every bank
        pts = [(b << 16 | o, n) for b in range(256) for o in EDGE_OFFS for n in INCS]
        chunks = [pts[i:i + 4000] for i in range(0, len(pts), 4000)]
        res = pool.map("bus_advance_points", [{"bus": busname, "points": c} for c in chunks], timeout=120, batch=1)
        ctx.evaluations += len(pts)
        tagged(busname, [], [r for c in res for r in c], busname)
        # m then n
        cps = [(b << 16 | o, m, n) for b in range(0, 256, 3) for o in (0x8000, 0xFFFE, 0x9000, 0x0000, 0x7FFF)
               for m in (1, 2, 0x7FFF, 0x8000) for n in (0, 1, 3, 0x8001)]
        res = pool.map("bus_advance_chain", [{"bus": busname, "points": cps}], timeout=120)
        ctx.evaluations += len(cps)
        tagged(busname, [], res[0], busname + "/chain")
        # Program.get_physical_address
        addrs = [b << 16 | o for b in range(256) for o in (0x8000, 0xFFFF, 0x0000)]
        res = pool.map("program_physical", [{"bus": busname, "addrs": addrs}], timeout=120)
        tagged(busname, [], res[0], busname + "/program")
        ctx.evaluations += len(addrs)

    # pipeline A: `.map` configurations enumerated by TLC
    g = tlc.run("GenC04", "INIT GInit\nNEXT GNext\nINVARIANT Emit\nCHECK_DEADLOCK FALSE\n", tag="c04.gen")
    ctx.add_tlc(g, "GenC04 .map configurations")
    cfgs = g.printed
    if not cfgs:
        raise tlc.TLCFailure("GenC04 produced no configurations")
    if ctx.quick:
        cfgs = [c for k, c in enumerate(cfgs) if k % 3 == ctx.seed % 3]
    tasks, meta = [], []
    for k, c in enumerate(cfgs):
        decls = c["decls"]
        key = "map:" + ",".join(f"{d['b0']:02x}-{d['b1']:02x}/{d['lo']:04x}/{d['mask']:x}/{d['m0']}" for d in decls[:1])
        for via in ("source", "api", "api_interleaved"):
            spec = {"decls": decls, "via": via}
            probes = sorted(c["probes"])
            tasks.append(("bus_point_segments", {"bus": spec, "addrs": probes}))
            meta.append((decls, f"{key}/{via}"))
            pts = [(a, n) for a in probes for n in sorted(c["incs"])]
            tasks.append(("bus_advance_points", {"bus": spec, "points": pts}))
            meta.append((decls, f"{key}/{via}"))
            ctx.nontrivial.add(key)
    for fname in ("bus_point_segments", "bus_advance_points"):
        idx = [k for k, t in enumerate(tasks) if t[0] == fname]
        res = pool.map(fname, [tasks[k][1] for k in idx], timeout=60)
        for k, r in zip(idx, res):
            if isinstance(r, dict):
                raise tlc.TLCFailure(f"driver failed on {meta[k][1]}: {r}")
            ctx.evaluations += len(r)
            tagged("custom", meta[k][0], r, meta[k][1])
    ctx.sample({"map_configuration": cfgs[0]["decls"], "probes": sorted(cfgs[0]["probes"])[:6]})
    return recs


def key_of(rec: dict) -> str:
    """known-findings key: bus / record type / window placement"""
    if rec["busname"] != "custom":
        return f"{rec['busname']}/{rec['t']}"
    d = rec["decls"][0]
    return f"map/{rec['t']}/lo={d['lo']:04x}/mask={d['mask']:x}"


def run(ctx) -> None:
    ctx.rule = ("records = maximal affine runs of get_address(a).physical and (a+n).logical_value over all 2^24 "
                "addresses of LoROM/HiROM + boundary/chained increments + TLC-enumerated .map configurations; "
                "non-trivial = distinct (bus, record kind, bank) combinations judged")
    ctx.trusted = ["TLC 1.8", "spec/Bus.tla as the statement of C04", "harness/drivers.py run-length recorder"]
    ctx.assumptions = ["ROM-bank addresses outside the bank window and increments leaving the mapped range are "
                       "outside the statement (not judged)", "`.map writable=0` is not generated"]
    design_level(ctx)
    apalache_adjunct(ctx)
    recs = collect(ctx)
    for r in recs:
        ctx.nontrivial.add((r["busname"], r["t"], r.get("start", r.get("a", 0)) >> 16, key_of(r)))
    ctx.sample(recs[0])
    ctx.sample(next(r for r in recs if r["t"] == "adv"))
    byid = {r["id"]: r for r in recs}
    rejects, st, gen = tlc.judge_traces("TraceC04", recs, tag="c04.trace", nshards=16,
                                        env={"POINTS": "sample" if ctx.quick else "all"})
    ctx.add_states(st, gen, "TraceC04 judging recorded bus behaviour")
    ctx.traces += len(recs)
    ctx.exhaustive = not ctx.quick
    for rj in rejects:
        r = byid[rj["id"]]
        ctx.violation(key_of(r), rj["clause"], {"record": r, "judge": "TraceC04"})


def replay(ctx, data) -> int:
    rec = data["record"]
    rejects, _, _ = tlc.judge_traces("TraceC04", [rec], tag="c04.replay", nshards=1, env={"POINTS": "all"})
    print("recorded observation:", rec)
    print("TLC verdict:", rejects or "accepted")
    return 1 if rejects else 0
