"""C10 — conditional and loop directives equal the hand-expanded program.
The Asm machine's `.if` / `.for` semantics IS the statement: the selected branch spliced in place
(an undefined condition counts as false), one internal scope per iteration with the variable bound, no
iteration when b <= a.  Design level: MC_Asm family 'ctl' (Design invariant on every program).
Conformance: the same programs + seeded programs with loops/conditionals judged by TraceAsm."""
from __future__ import annotations

from harness import apr, asmfam


def run(ctx) -> None:
    q = ctx.quick
    fams = [("ctl", 5 if q else 6), ("assignleak", 5 if q else 6), ("shadowloop2", 5 if q else 7), ("splice", 6 if q else 7), ("forneg", 4 if q else 5), ("deferall", 4 if q else 5), ("loopscope", 6 if q else 7)]
    ctx.rule = ("programs = every program over the 'ctl' alphabet of MC_Asm (<= %d statements: .if over 1/0/-1/constant/undefined "
                "name with and without else, .for over empty/single/many ranges and a constant bound, labels and data using "
                "the loop variable, one level of nesting), the 'assignleak' (:= inside loop/macro/block bodies over an outer constant) and "
                "'shadowloop2' (loop variable named like an outer constant) and 'splice' ({{p}} inside nested scopes, loops and conditionals of a macro body) alphabets + seeded APR trees; non-trivial = programs with an .if or .for" % fams[0][1])
    ctx.trusted = ["TLC 1.8", "spec/Asm.tla expansion (XStmt if/for, XLoop)", "harness/apr.py renderer"]
    ctx.assumptions = ["labels / `=` names / loop variables inside .if conditions and .for bounds are not generated (§8)"]
    n = 400 if q else 6000
    randoms = [apr.gen_program(ctx.seed * 49979687 + k, size=8 + k % 8, moves=False) for k in range(n)]
    progs, res, stats = asmfam.run_families(ctx, fams, randoms, "c10.trace", "TraceAsm judging .if/.for programs")

    def has_ctl(ss):
        return any(s["k"] in ("if", "for") or any(has_ctl(s[key]) for key in ("b", "t", "f", "body") if isinstance(s.get(key), list)) for s in ss)
    for k, p in enumerate(progs):
        if has_ctl(p["body"]):
            ctx.nontrivial.add(k)
    ctx.sample({"source": res[len(progs) // 2]["src"], "observed": {kk: res[len(progs) // 2][kk] for kk in ("ok", "calls")}})


replay = asmfam.replay
