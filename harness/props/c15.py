"""C15 — every input terminates.
Design level: the Progress contract (bounds) is the specification; the character-level scanner model
(MC_Scanner, when present) carries the liveness argument.  Conformance (pipeline B): (i) every sequence of
<= 3 (quick) / 4 lexemes over Progress!Lexemes, (ii) random longer sequences, (iii) every truncation, line
deletion and line duplication of valid programs (generated and the repository's samples).  Each input is
scanned and parsed with operation-counting subclasses of the public Scanner/Parser (deterministic step
budget) and assembled for real under a watchdog; TraceC15 judges every run with Progress!Clause."""
from __future__ import annotations

import itertools
import random

from harness import apr, tlc
from harness.core import REPO
from harness.pool import Pool


def mutations(text: str, rnd: random.Random, full: bool) -> list[str]:
    out = []
    cuts = range(len(text)) if full or len(text) < 400 else sorted(rnd.sample(range(len(text)), 400))
    out += [text[:k] for k in cuts]
    lines = text.split("\n")
    for k in range(len(lines)):
        out.append("\n".join(lines[:k] + lines[k + 1:]))
        out.append("\n".join(lines[:k] + [lines[k]] + lines[k:]))
    return out


def run(ctx) -> None:
    rnd = random.Random(ctx.seed)
    g = tlc.run("GenC15", "INIT Init\nNEXT Next\nCHECK_DEADLOCK FALSE\nINVARIANT Emit\n", tag="c15.gen")
    ctx.add_tlc(g, "GenC15 constants of the input family")
    k = next(v for v in g.printed if isinstance(v, dict) and "lexemes" in v)
    SUB = {"<nul>": "\0", "<eacute>": "\u00e9", "<lambda>": "\u03bb", "<uuml>": "\u00fc", "<nbsp>": "\u00a0", "<emoji>": "\U0001F600"}

    def sub(x):
        for a, b in SUB.items():
            x = x.replace(a, b)
        return x
    lex = [sub(x) for x in k["lexemes"]]
    L = k["quick"] if ctx.quick else k["thorough"]
    ctx.rule = (f"inputs = every sequence of <= {L} of {len(lex)} lexemes (joined with and without a space) + random longer "
                "sequences + every truncation / line deletion / line duplication of valid programs; non-trivial = distinct inputs "
                "containing an opener of a construct that needs a terminator (quote, comment, brace, bracket, directive)")
    ctx.trusted = ["TLC 1.8", "spec/Progress.tla budgets", "operation-counting subclasses of the public Scanner/Parser in harness/drivers.py",
                   "pool watchdog (10 s per input) as backstop"]
    ctx.assumptions = ["termination of arbitrary Python is not proved; the contract is checked on every enumerated input",
                       "`.for` bounds are not driven to huge counts"]
    texts = []
    for n in range(1, L + 1):
        # full product for n <= 3; for n = 4 the product is 14.7M: thorough takes all 4-sequences over the risky subset
        pool_lex = lex if n <= 3 else [x for x in lex if x in ("'abc", "'", "/*", "*/", "{", "{{", "(", "[", ".macro", ".if", ".for", "\n",
                                                               "lda", ".db", "name", ",", "#", ";", "\0", ".include", "else", ":=", "\\")]
        for t in itertools.product(pool_lex, repeat=n):
            texts.append(" ".join(t))
            if n <= 2:
                texts.append("".join(t))
    if ctx.quick:
        # all 1-2 sequences and a seeded third of the 3-sequences
        keep = [t for t in texts if t.count(" ") < 2]
        rest = [t for t in texts if t.count(" ") >= 2]
        rnd.shuffle(rest)
        texts = keep + rest[: len(rest) // 3]
    for _ in range(2000 if ctx.quick else 30000):
        texts.append((" " if rnd.random() < 0.7 else "").join(rnd.choice(lex) for _ in range(rnd.randint(5, 40))))
    # byte soup: random characters incl. control and non-ASCII ones
    soup = "abz_AZ09 \t\n.,:;'#()[]{}<>=+-*/&|~!@$%^\\\"\0\x01\x7f\u00e9\u00df\u03bb\u4e2d\U0001F600"
    for _ in range(3000 if ctx.quick else 40000):
        texts.append("".join(rnd.choice(soup) for _ in range(rnd.randint(1, 30))))
    bases = [apr.render(apr.gen_program(ctx.seed * 31 + j, size=10))[0] for j in range(6 if ctx.quick else 40)]
    for name in ("tests/samples/sample.s", "tests/samples/push_pull.s"):
        try:
            bases.append(open(REPO / name, encoding="utf-8").read())
        except OSError:
            pass
    # the (unfinished) .struct directive: every form must still end with a result or an error
    bases += [".struct point {\nbyte x\nword y\n}\n", ".struct header { dword checksum }\n.db 1\n", ".struct p { x }\n",
              ".struct p {\n byte a b\n}\nnop\n", ".struct q {\n}\n", ".struct {\nlong z\n}\n"]
    # layouts without a stable size (a symbol fed back from the distance it influences); .map ranges beyond a byte
    bases += ["x := 0\n*=0x008000\na:\nlda x\nb:\nx = 0x102 - (b - a)\n", "w := 0x1234\n*=0x008000\nlda w\nend:\nw = end & 0xff\n.dw w\n",
              ".map identifier=1 bank_range=0x00, 0x6ff addr_range=0x8000, 0xffff mask=0x8000\n*=0x008000\nnop\n",
              ".map identifier=1 bank_range=0x00, 0x3f addr_range=0x8000, 0xffff mask=0x8000 mirror_bank_range=0x80, 0x1bf\n*=0x008000\nnop\n",
              ".map identifier=1 bank_range=0x3f, 0x00 addr_range=0xffff, 0x8000 mask=0x8000\n*=0x008000\nnop\n"]
    # macros that apply themselves (once, twice; unconditionally, under a condition that never turns false)
    bases += ["go := 1\n.macro spread() {\n.if go {\nspread()\nspread()\n}\n}\nspread()\n",
              ".macro once() {\n.db 1\nonce()\n}\nonce()\n", "k := 1\n.macro two(a) {\n.if k {\ntwo(a + 1)\ntwo(a)\n}\n}\n*=0x008000\ntwo(0)\n",
              ".macro ping() {\npong()\n}\n.macro pong() {\nping()\nping()\n}\nping()\n"]
    for b in bases:
        texts += [b] + mutations(b, rnd, not ctx.quick)
    texts = list(dict.fromkeys(texts))
    tasks = [{"text": t, "scan_budget": 40 * (len(t) + 2) ** 2 + 1000 + 1, "parse_budget_base": 1001} for t in texts]
    # inputs that come with files: .text strings over joker fragments with a table, and every truncation of a patch
    frag = ["A", "B", "[0x12]", "[0x12", "[0x1", "[0x", "[", "]", "[0xZZ]", "0x12]", " "]
    tbl = {"t.tbl": {"text": "41=A\n4243=B\n"}}
    for n in (1, 2, 3):
        for t in itertools.product(frag, repeat=n):
            src = "*=0x008000\n.table 't.tbl'\n.text '" + "".join(t) + "'\n"
            texts.append(src)
            tasks.append({"text": src, "files": tbl, "scan_budget": 40 * (len(src) + 2) ** 2 + 1001, "parse_budget_base": 1001})
    # .text several scopes below the .table (or with no table at all); files that include themselves / each other
    deep = ["*=0x008000\n.table 't.tbl'\n.scope a {\n.macro m() {\n{\n.text 'AB'\n}\n}\nm()\n}\n",
            "*=0x008000\n.scope a {\n{\n.macro m() {\n.text 'AB'\n}\nm()\n}\n}\n",
            "*=0x008000\n.table 't.tbl'\n{\n{\n{\n.text 'A'\n}\n}\n}\n"]
    for src in deep:
        texts.append(src)
        tasks.append({"text": src, "files": tbl, "scan_budget": 40 * (len(src) + 2) ** 2 + 1001, "parse_budget_base": 1001})
    cyc = {"selfinc.s": {"text": ".db 1\n.include 'selfinc.s'\n"}, "ping.s": {"text": ".include 'pong.s'\n"}, "pong.s": {"text": "nop\n.include 'ping.s'\n"}}
    for src in ("*=0x008000\n.include 'selfinc.s'\n", "*=0x008000\n.include 'ping.s'\n", "*=0x008000\n{\n.include 'pong.s'\n}\n"):
        texts.append(src)
        tasks.append({"text": src, "files": cyc, "scan_budget": 40 * (len(src) + 2) ** 2 + 1001, "parse_budget_base": 1001})
    patch = [80, 65, 84, 67, 72, 0, 0x12, 0x34, 0, 3, 1, 2, 3, 0, 0x20, 0, 0, 0, 0, 4, 9, 0x01, 0x80, 0x00, 0, 1, 7, 69, 79, 70]
    for cut in range(len(patch) + 1):
        for src in ("*=0x008000\n.db 1\n.include_ips 'p.ips', 0\n.db 2\n",
                    "*=0x008000\n.macro inc() {\n.include_ips 'p.ips', 0x10\n}\n.for k := 0, 2 {\ninc()\n}\n"):
            texts.append(src + f"; cut {cut}")
            tasks.append({"text": src, "files": {"p.ips": {"bytes": patch[:cut]}}, "scan_budget": 40 * (len(src) + 2) ** 2 + 1001,
                          "parse_budget_base": 1001})
    res = Pool().map("progress_run", tasks, timeout=10, batch=200)
    recs, idx = [], []
    B = 500
    runs_all = []
    for t, o in zip(texts, res):
        if o.get("driver_error") or o.get("crash"):
            raise tlc.TLCFailure(f"progress_run failed on {t!r}: {o}")
        if o.get("hang"):
            o = {"len": len(t), "tokens": 0, "scan_ops": 0, "parse_ops": 0, "stalled_calls": 0, "calls": 0, "budget_hit": False,
                 "hang": True, "outcome": "error"}
        runs_all.append(o)
        ctx.evaluations += 1
        if any(x in t for x in ("'", "/*", "{", "(", "[", ".macro", ".if", ".for", ".include")):
            ctx.nontrivial.add(t)
    for b in range(0, len(runs_all), B):
        recs.append({"id": str(b), "runs": runs_all[b:b + B]})
    ctx.sample({"input": texts[100], "observed": runs_all[100]})
    ctx.sample({"input": "/* c */", "observed": next((o for t, o in zip(texts, runs_all) if t == "/* c */"), None)})
    rejects, st, gen = tlc.judge_traces("TraceC15", recs, tag="c15.trace", nshards=16)
    ctx.add_states(st, gen, "TraceC15 judging every run against the progress contract")
    ctx.traces += len(runs_all)
    ctx.extra["max_scan_ops_ratio"] = max((o["scan_ops"] / (40 * (o["len"] + 2) ** 2 + 1000) for o in runs_all), default=0)
    scanner_model(ctx, texts, rnd)
    for rj in rejects:
        b = int(rj["id"])
        for f in rj["fails"]:
            t = texts[b + f - 1]
            o = runs_all[b + f - 1]
            why = "hang" if o["hang"] else ("budget" if o["budget_hit"] else "ops")
            # key: the construct left open at the end of the input
            opener = next((x for x in ("/*", "'", "{{", "{", "(", "[") if x in t and (x != "/*" or "*/" not in t.split("/*")[-1])), "other")
            ctx.violation(f"{why}:unterminated {opener}", rj["clause"], {"text": t, "observed": o})


def scanner_model(ctx, texts, rnd) -> None:
    """Design level on the character-level scanner model + conformance of the real scanner with it.
    MC_Scanner: for every input of <= N characters over three alphabets, no loop spins and every token carries
    the line/column of its first character; the pinned block-comment loop (CHECKEOF=0) must be refuted.
    Conformance (diagnostic, R3): token streams / error positions of the real scanner vs the model."""
    from harness import scanmc
    scanmc.design(ctx, 4 if ctx.quick else 6)
    scanmc.refute_pinned_comment_loop(ctx)
    sample = [t for t in texts if len(t) <= 60]
    rnd.shuffle(sample)
    sample = sample[: (4000 if ctx.quick else 60000)]
    res = Pool().map("scan_tokens", [{"text": t} for t in sample], timeout=20, batch=200)
    recs = []
    for k, (t, o) in enumerate(zip(sample, res)):
        if o.get("hang") or o.get("driver_error") or o.get("crash"):
            continue
        recs.append({"id": str(k), "chars": ["<nul>" if c == "\0" else c for c in t], **o})
    rejects, st, gen = tlc.judge_traces("TraceScanner", recs, tag="c15.scanner.trace", nshards=16, heap="2g")
    ctx.add_states(st, gen, "TraceScanner: real token streams vs the scanner model (diagnostic)")
    ctx.extra["scanner_model_conformance"] = {"inputs": len(recs), "drift": len(rejects)}
    for rj in rejects[:20]:
        ctx.drift_note(f"scanner model vs code on {sample[int(rj['id'])]!r}: {rj['clause'][:200]}")


def replay(ctx, data) -> int:
    t = data["text"]
    o = Pool(1).map("progress_run", [{"text": t, "scan_budget": 40 * (len(t) + 2) ** 2 + 1001, "parse_budget_base": 1001}], timeout=10)[0]
    print(repr(t), "->", o)
    return 1 if (o.get("hang") or o.get("budget_hit")) else 0
