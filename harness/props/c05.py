"""C05 — relative branches encode the true displacement or are rejected.
Design level: GenC05!Sound — on every case the Asm machine never encodes a branch whose run address or
target is in RAM and never lets a displacement outside -128..127 through.  Conformance (pipeline A,
exhaustive in the stated range): every case program assembled and judged by TraceAsm."""
from __future__ import annotations

from harness import asmfam, tlc


def dclass(d: int) -> str:
    if d < -128:
        return "below"
    if d > 127:
        return "above"
    return "edge" if d in (-128, -127, 126, 127) else "in"


def run(ctx) -> None:
    ctx.rule = ("cases = (9 branch mnemonics) x displacement -140..140 (all for bra, boundary set for the others in quick) x "
                "placement (window start, middle, 3/2/1 bytes before the window end) x relocation (none, @= ROM, @= RAM, RAM "
                "run address with ROM target) x mapping (LoROM, HiROM) x target form (expression, label+padding); "
                "non-trivial = distinct cases the spec gives a meaning")
    ctx.trusted = ["TLC 1.8", "spec/Asm.tla BranchResult", "spec/Isa65816.tla", "harness/apr.py renderer"]
    ctx.assumptions = ["cross-bank targets and a branch whose following address wraps the bank are not judged"]
    full = 0 if ctx.quick else 1
    ns = 16
    rs = tlc.run_sharded("GenC05", "INIT Init\nNEXT Next\nCHECK_DEADLOCK FALSE\nINVARIANT Sound\nINVARIANT Emit\n", tag="c05.gen",
                         nshards=ns, env={"FULL": full}, heap="2g", timeout=7200)
    ctx.add_tlc(rs, "GenC05 case machine: Sound invariant + vectors")
    vecs = [v for r in rs for v in r.printed if isinstance(v, dict) and "prog" in v]
    if len(vecs) < 1000:
        raise tlc.TLCFailure(f"GenC05 produced only {len(vecs)} cases")
    progs = [v["prog"] for v in vecs]
    cases = {id(v["prog"]): v["case"] for v in vecs}

    def keyfn(p, clause, detail):
        c = cases[id(p)]
        return f"{clause}/{c['reloc']}/{c['form']}/{dclass(c['d'])}/{c['rom']}" + ("/window-end" if c["place"] % 65536 >= 65530 else "")

    res = asmfam.observe(progs)
    stats = asmfam.judge(ctx, progs, res, "c05.trace", keyfn, "TraceAsm judging branch programs")
    ctx.evaluations += len(progs)
    for v in vecs:
        c = v["case"]
        ctx.nontrivial.add((c["mn"], c["d"], c["place"], c["reloc"], c["rom"], c["form"]))
    ctx.exhaustive = not ctx.quick
    ctx.extra["asm_stats"] = stats
    ctx.sample({"case": vecs[0]["case"], "source": res[0]["src"], "observed": {"ok": res[0]["ok"], "calls": res[0]["calls"]}})


replay = asmfam.replay
