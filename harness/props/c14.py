"""C14 — a failed assembly is never reported as success.
Design level: Front (phase machine; status zero iff Done reached, announce implies zero, termination
under fairness).  Conformance (pipeline A): GenC14 enumerates (entry point, fault class, position,
base program); the harness builds each faulty program from a valid base, runs the real entry point
(string API, Program.assemble, assemble_as_patch, the CLI as a subprocess) and TraceC14 decides with
Front!ReportedFailure / ReportedSuccess."""
from __future__ import annotations

from harness import tlc
from harness.pool import Pool

BASES = {
    "b1": ["*=0x008000", "start:", "lda.w #0x1234", "sta.w 0x2100", ".macro two(a, b) {", ".db a, b", "}", "two(1, 2)", "loop:", "dex",
           "bne loop", ".dl start", "rts"],
    "b2": ["*=0x018000", "value := 0x20", ".scope tools {", "entry:", "lda.b #value", "rtl", "}", ".macro two(a, b) {", ".dw a", ".dw b", "}",
           "jsr.l tools.entry", "two(tools.entry, 3)", ".ascii 'text'", ".for i := 0, 3 {", ".db i", "}"],
    "b3": ["*=0x00ff00", ".macro two(a, b) {", "ldx.w #a", "ldy.w #b", "}", "first:", "two(1, 2)", "{", "inner:", ".dw inner", "}",
           ".if 1 {", "nop", "} else {", "brk", "}", "last:", ".pointer last"],
}
# where a statement may be inserted so that it is the first / a middle / the last top-level statement
SLOTS = {"b1": (1, 8, 13), "b2": (1, 7, 17), "b3": (1, 5, 18)}
SNIPPETS = {
    "lexical": [".ascii 'abc", "lda.q 1", "lda 1,z", ".foo 1", "lda #!1", "/* never closed", "/*/"],
    "syntax": ["lda.w", "sta.w #", ".macro (", "= 5", "}", "{\nnop\n}\n}"],
    # `faulty` is a macro other cases of this family define: it must still be undefined in a source that does not
    "undefined_macro": ["nosuchmacro(1)", "faulty()"],
    # an argument naming a symbol defined nowhere, through a parameter that is unused / shadows an outer symbol
    "undefined_macro_arg": [".macro unusedp(q) {\n.db 1\n}\nunusedp(nosuchsym)",
                            "shv := 7\n.macro shadowed(shv) {\n.db shv\n}\nshadowed(nosuchsym)",
                            ".macro outerm(addr) {\n.macro innerm(addr) {\n.dw addr\n}\ninnerm(addr)\n}\nouterm(nosuchsym)"],
    "too_few_args": ["two(1)"],
    "missing_include": [".include 'nofile.s'"],
    "missing_incbin": [".incbin 'nofile.bin'"],
    "missing_table": [".table 'nofile.tbl'"],
    "missing_ips": [".include_ips 'nofile.ips', 0"],
    # a patch file that exists but is not a well-formed IPS file (no header; cut in the middle of a record)
    "malformed_ips": [".include_ips 'nohdr.ips', 0", ".include_ips 'trunc.ips', 0", ".include_ips 'trunc2.ips', 0x100"],
    "undefined_operand_nosuffix": ["lda nosuchsym"],
    "unmapped_position": ["*=0x700000\n.db 1", "*=0xD08000\n.db 1", "*=0xEF8000\n.db 1", "*=0x7D0000\n.db 1",
                          # data that runs from the last mapped bank into an unmapped one
                          "*=0x6FFFFE\n.db 1, 2, 3, 4", "*=0xCFFFFE\nlda.l 0x123456\nnop",
                          # addresses beyond 24 bits
                          "*=0x1008000\n.db 1", "@=0x2C08000\n.db 1"],
    "undefined_equ": ["vv = nosuchsym + 1"],
    "undefined_operand": ["lda.w nosuchsym", "jmp.w nosuchsym"],
    "undefined_data": [".dw nosuchsym", ".db 1, nosuchsym"],
    "bad_width": ["lda.l #0x123456", "jmp.b 0x12", "rep.w #0x30"],
    "bad_mode": ["ldx (0x12),y", "stz [0x10]", "nop #1", "lda.b #0x10, x", "ldx.w #0x1234, y",
                 "lda [0x10,y]", "sta [0x10,x],y", "jmp [0x1000,x]"],
    "branch_range": ["bra zfar\n.ascii '" + "x" * 200 + "'\nzfar:"],
    "text_without_table": [".text 'ab'"],
}


SNIPPET_FILES = {
    "nohdr.ips": {"bytes": [0x00, 0x80, 0x00, 0x00, 0x01, 0x55, 69, 79, 70]},
    "trunc.ips": {"bytes": [80, 65, 84, 67, 72, 0x00, 0x80, 0x00, 0x00, 0x05, 0x01, 0x02]},
    "trunc2.ips": {"bytes": [80, 65, 84, 67, 72, 0x00, 0x80, 0x00, 0x00, 0x01, 0x01, 0x00, 0x90]},
}


def build(case: dict, variant: int) -> dict:
    base = list(BASES[case["base"]])
    f = case["fault"]
    files = dict(SNIPPET_FILES) if f == "malformed_ips" else {}
    if f in ("none", "missing_source"):
        return {"src": "\n".join(base) + "\n", "files": files, "missing_source": f == "missing_source", "snippet": ""}
    snip = SNIPPETS[f][variant % len(SNIPPETS[f])]
    first, mid, last = SLOTS[case["base"]]
    pos = case["pos"]
    if pos == "first":
        base.insert(first, snip)
    elif pos == "middle":
        base.insert(mid, snip)
    elif pos == "last":
        base.insert(last, snip)
    elif pos == "inblock":
        base.insert(mid, "{\n.db 0x11\n" + snip + "\n.db 0x22\n}")
    elif pos == "inmacro":
        base.insert(mid, ".macro faulty() {\n.db 0x33\n" + snip + "\n}\nfaulty()")
    elif pos == "inif":
        base.insert(mid, ".if 1 {\n.db 0x66\n" + snip + "\n} else {\n.db 0x77\n}")
    elif pos == "inelse":
        base.insert(mid, ".if 0 {\n.db 0x66\n} else {\n" + snip + "\n.db 0x77\n}")
    elif pos == "infor":
        base.insert(mid, ".for fk := 0, 2 {\n.db fk\n" + snip + "\n}")
    elif pos == "inscope":
        base.insert(mid, ".scope faultscope {\n.db 0x88\n" + snip + "\n}")
    elif pos == "ininclude":
        files["part.s"] = {"text": ".db 0x44\n" + snip + "\n.db 0x55\n"}
        base.insert(mid, ".include 'part.s'")
    return {"src": "\n".join(base) + "\n", "files": files, "missing_source": False, "snippet": snip}


def run(ctx) -> None:
    ctx.rule = ("cases = GenC14: 4 entry points x 21 fault classes x 10 positions x 3 base programs (x snippet variants); "
                "non-trivial = distinct (entry, fault class, position, base, variant)")
    ctx.trusted = ["TLC 1.8", "spec/Front.tla, FrontDefs.tla", "fault snippets and base programs in harness/props/c14.py "
                   "(each snippet is a definite error by construction)"]
    ctx.assumptions = ["error texts and exception types are not compared, only reported-failure vs reported-success"]
    cfg = ("SPECIFICATION Spec\nCHECK_DEADLOCK FALSE\nINVARIANT StatusZeroIffCompleted\nINVARIANT AnnounceImpliesZero\n"
           "INVARIANT FaultNeverSuccess\nPROPERTY Terminates\n")
    r = tlc.run("Front", cfg, tag="c14.mc")
    ctx.add_tlc(r, "Front phase machine (all entry points x fault classes), liveness under WF")
    g = tlc.run("GenC14", "INIT GInit\nNEXT GNext\nCHECK_DEADLOCK FALSE\nINVARIANT GEmit\n", tag="c14.gen", env={"GEN": 1})
    ctx.add_tlc(g, "GenC14 case machine")
    cases = [c for c in g.printed if isinstance(c, dict) and "fault" in c]
    if len(cases) < 500:
        raise tlc.TLCFailure("GenC14 produced too few cases")
    tasks, meta = [], []
    for c in cases:
        nvar = len(SNIPPETS.get(c["fault"], [""]))
        vs = range(nvar) if (not ctx.quick or c["entry"] != "cli") else [hash((c["pos"], c["base"], ctx.seed)) % nvar]
        if ctx.quick and c["entry"] == "cli" and c["base"] != "b1" and c["pos"] not in ("middle", "inmacro", "inif"):
            continue    # the CLI is a real subprocess per case: quick samples positions/bases for it
        for v in vs:
            b = build(c, v)
            tasks.append({"entry": c["entry"], "src": b["src"], "files": b["files"], "missing_source": b["missing_source"]})
            meta.append((c, v, b["snippet"]))
    res = Pool().map("run_entry", tasks, timeout=90, batch=8)
    recs = []
    for k, ((c, v, snip), o) in enumerate(zip(meta, res)):
        if o.get("hang"):
            ctx.violation(f"hang:{c['entry']}/{c['fault']}/{snip[:20]}", "entry point did not terminate", {"case": c, "snippet": snip})
            continue
        if o.get("driver_error") or o.get("crash"):
            raise tlc.TLCFailure(f"run_entry failed on {c}: {o}")
        recs.append({"id": str(k), "entry": c["entry"], "fault": c["fault"],
                     "obs": {"returned": o["returned"], "raised": o["raised"], "status": o["status"], "success_text": o["success_text"]}})
        ctx.evaluations += 1
        ctx.nontrivial.add((c["entry"], c["fault"], c["pos"], c["base"], v))
    ctx.sample({"case": meta[40][0], "snippet": meta[40][2], "observed": {kk: res[40][kk] for kk in ("returned", "raised", "status", "success_text")}})
    rejects, st, gen = tlc.judge_traces("TraceC14", recs, tag="c14.trace", nshards=8)
    ctx.add_states(st, gen, "TraceC14 judging reported status")
    ctx.traces += len(recs)
    ctx.exhaustive = not ctx.quick
    for rj in rejects:
        c, v, snip = meta[int(rj["id"])]
        o = res[int(rj["id"])]
        ctx.violation(f"{c['entry']}/{c['fault']}", rj["clause"], {"case": c, "variant": v, "snippet": snip, "source": tasks[int(rj['id'])]["src"],
                                                                  "observed": {kk: o.get(kk) for kk in ("returned", "raised", "status", "success_text", "err", "log")}})


def replay(ctx, data) -> int:
    c = data["case"]
    b = build(c, data["variant"])
    o = Pool(1).map("run_entry", [{"entry": c["entry"], "src": b["src"], "files": b["files"], "missing_source": b["missing_source"]}], timeout=90)[0]
    print(b["src"])
    print("re-observed:", {kk: o.get(kk) for kk in ("returned", "raised", "status", "success_text", "err")})
    rec = {"id": "0", "entry": c["entry"], "fault": c["fault"],
           "obs": {"returned": o["returned"], "raised": o["raised"], "status": o["status"], "success_text": o["success_text"]}}
    rejects, _, _ = tlc.judge_traces("TraceC14", [rec], tag="c14.replay", nshards=1)
    print("TLC verdict:", rejects or "accepted")
    return 1 if rejects else 0
