"""C01 — accepted instructions encode exactly as the 65c816 ISA defines.
Design level: self-checks of the ISA matrix transcription and of Instr (MC_C01).
Conformance (pipeline A, exhaustive over the case space): GenC01 enumerates (mnemonic, shape)
cases; each is rendered with every suffix x value x letter case (x operand context in thorough),
assembled as a one-instruction program, and TraceC01 judges every run against Isa65816/Instr."""
from __future__ import annotations

from harness import tlc
from harness.pool import Pool

SHAPE_FMT = {
    "imp": "{mn}", "imm": "{mn}{sfx} #{v}", "dir": "{mn}{sfx} {v}", "dirx": "{mn}{sfx} {v},{x}",
    "diry": "{mn}{sfx} {v},{y}", "dirs": "{mn}{sfx} {v},{s}", "ind": "{mn}{sfx} ({v})",
    "indy": "{mn}{sfx} ({v}),{y}", "indxi": "{mn}{sfx} ({v},{x})", "indsy": "{mn}{sfx} ({v},{s}),{y}",
    "lng": "{mn}{sfx} [{v}]", "lngy": "{mn}{sfx} [{v}],{y}",
    "indx": "{mn}{sfx} ({v}),{x}", "lngx": "{mn}{sfx} [{v}],{x}", "indyi": "{mn}{sfx} ({v},{y})",
    "indsi": "{mn}{sfx} ({v},{s})", "indxiy": "{mn}{sfx} ({v},{x}),{y}", "indyiy": "{mn}{sfx} ({v},{y}),{y}",
    "indsix": "{mn}{sfx} ({v},{s}),{x}", "immx": "{mn}{sfx} #{v},{x}", "dirxy": "{mn}{sfx} {v},{x},{y}",
}


def render(mn: str, shape: str, sfx: str, val: int, case: str, ctxt: str) -> str:
    up = case == "upper"
    hexs = f"{val:x}"
    lit = "0x" + (hexs.upper() if up else hexs)
    pre = ""
    if ctxt == "const":
        pre = f"opv := {lit}\n"
        lit = "opv"
    elif ctxt == "expr":
        lit = f"{lit}+1-1" if val > 0 else f"{lit}+0"
    elif ctxt in ("dec", "decnonl"):
        lit = str(val)
    elif ctxt == "paren":
        # a direct operand whose text starts with a parenthesised group followed by an operator
        lit = f"({lit}+1)-1"
    f = SHAPE_FMT[shape]
    ins = f.format(mn=mn.upper() if up else mn, sfx=("." + (sfx.upper() if up else sfx)) if sfx else "",
                   v=lit, x="X" if up else "x", y="Y" if up else "y", s="S" if up else "s")
    return f"*=0x008000\n{pre}{ins}" + ("" if ctxt in ("nonl", "decnonl") else "\n")


def build_records(ctx, cases, cases_ctxts):
    items, index = [], []
    for c in cases:
        sfxs = sorted(c["sfxs"])
        vals = sorted(c["vals"])
        for case, ctxt in cases_ctxts:
            if c["shape"] == "imp" and ctxt not in ("lit", "nonl"):
                continue
            if ctxt == "paren" and c["shape"] not in ("dir", "dirx", "diry", "dirs", "dirxy"):
                continue
            runs = [(s, v) for s in sfxs for v in vals]
            items.append({"items": [{"src": render(c["mn"], c["shape"], s, v, case, ctxt)} for s, v in runs]})
            index.append((c, case, ctxt, runs))
    return items, index


def observe(ctx, cases, cases_ctxts) -> list[dict]:
    items, index = build_records(ctx, cases, cases_ctxts)
    res = Pool().map("assemble_many", items, timeout=60)
    recs = []
    for (c, case, ctxt, runs), outs in zip(index, res):
        if isinstance(outs, dict):
            raise tlc.TLCFailure(f"driver failed on {c}: {outs}")
        rr = []
        for (s, v), o in zip(runs, outs):
            if o.get("hang") or o.get("driver_error"):
                raise tlc.TLCFailure(f"driver failed on {c}: {o}")
            bs = [b for _, blk in o["calls"] for b in blk]
            rr.append({"sfx": s, "val": v, "ok": bool(o["ok"]), "bytes": bs})
            ctx.evaluations += 1
        recs.append({"id": f"{c['mn']}/{c['shape']}/{case}/{ctxt}", "mn": c["mn"], "shape": c["shape"],
                     "case": case, "ctxt": ctxt, "runs": rr})
    return recs


def gen_cases(ctx) -> list[dict]:
    g = tlc.run("GenC01", "INIT Init\nNEXT Next\nINVARIANT Emit\nCHECK_DEADLOCK FALSE\n", tag="c01.gen")
    ctx.add_tlc(g, "GenC01 case machine")
    if len(g.printed) < 1000:
        raise tlc.TLCFailure("GenC01 produced too few cases")
    return g.printed


def design_level(ctx) -> None:
    cfg = ("INIT Init\nNEXT Next\nCHECK_DEADLOCK FALSE\nINVARIANT MatrixComplete\nINVARIANT MatrixInjective\n"
           "INVARIANT MnemonicCount\nINVARIANT GroupOne\nINVARIANT Branches\nINVARIANT WidthMinimal\n"
           "INVARIANT LengthIsOnePlusWidth\nINVARIANT NoAliasing\nINVARIANT SyntaxCoversMatrix\nINVARIANT SupportedIsDefined\n")
    r = tlc.run("MC_C01", cfg, tag="c01.mc")
    ctx.add_tlc(r, "MC_C01 ISA matrix / Instr self-checks")


def run(ctx) -> None:
    ctx.rule = ("cases = GenC01's (mnemonic, shape) product x suffix x value x letter case (x operand context in "
                "thorough); non-trivial = distinct (mnemonic, shape, width) that the ISA defines")
    ctx.trusted = ["TLC 1.8", "spec/Isa65816.tla transcription of the WDC matrix (self-checked by MC_C01)",
                   "harness renderer of one-instruction programs"]
    ctx.assumptions = ["operand without suffix whose value needs more than 3 bytes is not judged",
                       "relative branches in the `mn e` shape are judged by C05"]
    design_level(ctx)
    cases = gen_cases(ctx)
    cc = [("lower", "lit"), ("upper", "lit"), ("lower", "paren"), ("lower", "nonl"), ("lower", "decnonl")]
    if not ctx.quick:
        cc += [("lower", "const"), ("lower", "expr"), ("lower", "dec"), ("upper", "const")]
    recs = observe(ctx, cases, cc)
    ctx.sample({"id": recs[0]["id"], "source": render(recs[0]["mn"], recs[0]["shape"], "w", 255, "lower", "lit"),
                "runs": recs[0]["runs"][:3]})
    byid = {r["id"]: r for r in recs}
    rejects, st, gen = tlc.judge_traces("TraceC01", recs, tag="c01.trace", nshards=16, env={"FREEZE": "0"})
    ctx.add_states(st, gen, "TraceC01 judging every run")
    ctx.traces += ctx.evaluations
    ctx.exhaustive = True
    for r in recs:
        ctx.nontrivial.add((r["mn"], r["shape"]))
    for rj in rejects:
        r = byid[rj["id"]]
        for f in rj["fails"]:
            # key: the (mnemonic, shape, width) class; letter case only when lower case works
            key = f"{r['mn']}/{r['shape']}/w{f['w']}"
            lower_also = any(x["id"].startswith(f"{r['mn']}/{r['shape']}/lower/") and
                             any(ff["w"] == f["w"] for ff in x["fails"]) for x in rejects)
            if r["case"] == "upper" and not lower_also:
                key += "/upper"
            if r["ctxt"] != "lit" and not any(x["id"] == f"{r['mn']}/{r['shape']}/lower/lit" and any(ff["w"] == f["w"] for ff in x["fails"]) for x in rejects):
                key += f"/{r['ctxt']}"
            src = render(r["mn"], r["shape"], f["sfx"], f["val"], r["case"], r["ctxt"])
            obs = next(x for x in r["runs"] if x["sfx"] == f["sfx"] and x["val"] == f["val"])
            ctx.violation(key, f["clause"], {"source": src, "observed": obs, "case": {k: r[k] for k in ("mn", "shape", "case", "ctxt")},
                                             "run": {"sfx": f["sfx"], "val": f["val"]}})


def replay(ctx, data) -> int:
    c = data["case"]
    run_ = data["run"]
    case = {"mn": c["mn"], "shape": c["shape"], "sfxs": [run_["sfx"]], "vals": [run_["val"]]}
    recs = observe(ctx, [case], [(c["case"], c["ctxt"])])
    print("source:\n" + data["source"])
    print("re-observed:", recs[0]["runs"])
    rejects, _, _ = tlc.judge_traces("TraceC01", recs, tag="c01.replay", nshards=1, env={"FREEZE": "0"})
    print("TLC verdict:", rejects or "accepted")
    return 1 if rejects else 0
