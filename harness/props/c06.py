"""C06 — expressions evaluate to their conventional integer value.
Design level: MC_C06 — for every grammatical token string of <= L tokens, the shunting-yard machine
(intended unary rule) builds the reference grammar's tree.  Conformance: (A) every such string (L_A
tokens) rendered in several spacings / literal bases and evaluated by a816 in every context that
accepts its operators; (B) seeded random deep trees with boundary magnitudes.  TraceC06 judges
every observation with GrammarValue over 48-bit Wide integers."""
from __future__ import annotations

import random

from harness import tlc
from harness.drivers import to_wide
from harness.pool import Pool

OPS = ["-", "~", "*", "+", "<<", ">>", "&", "|"]
DIRECTIVE_CTXS = ["dl", "sym", "assign", "macro", "macro2", "deep", "if"]
ENV = {"x": 5, "_u": 5, "Xy_1": 5}
IDNAMES = ["x", "_u", "Xy_1"]


def render_num(v: int, style: str) -> str:
    if style == "dec":
        return str(v)
    if style == "hexl":
        return "0x%x" % v
    if style == "hexu":
        return "0x%X" % v
    return "0b" + bin(v)[2:]


def render(tokens: list, spacing: str, numstyle: str, rnd: random.Random) -> str:
    parts = []
    idname = rnd.choice(IDNAMES)       # the identifier is written x, _u or Xy_1 (same value)
    for t in tokens:
        parts.append(render_num(t, numstyle) if isinstance(t, int) else (idname if t == "x" else t))
    if spacing == "none":
        return "".join(parts)
    if spacing == "single":
        return " ".join(parts)
    out = ""
    for k, p in enumerate(parts):
        out += p
        if k < len(parts) - 1:
            out += " " * rnd.choice([0, 0, 1, 2, 3])
    return out


def tok_records(tokens: list) -> list[dict]:
    out = []
    for t in tokens:
        if isinstance(t, int):
            out.append({"k": "num", "v": to_wide(t)})
        elif t == "(":
            out.append({"k": "lp"})
        elif t == ")":
            out.append({"k": "rp"})
        elif t in OPS:
            out.append({"k": "op", "o": t})
        else:
            out.append({"k": "id", "v": t})
    return out


def contexts_for(tokens: list) -> list[str]:
    ctxs = ["eval", "imm16"]
    # `lda.l (e)` is indirect addressing; `lda.l (e) op f` is a direct operand whose text starts with a group
    if tokens[0] != "(" or not group_spans_all(tokens):
        ctxs.append("long24")
        ctxs.append("dirauto")
    if "|" not in tokens and "~" not in tokens:
        ctxs += DIRECTIVE_CTXS
        if "<<" not in tokens and "*" not in tokens and all(not isinstance(t, int) or t < 64 for t in tokens):
            ctxs.append("for")
    return ctxs


def group_spans_all(tokens: list) -> bool:
    """does the parenthesis opened by the first token close at the last token?"""
    depth = 0
    for k, t in enumerate(tokens):
        if t == "(":
            depth += 1
        elif t == ")":
            depth -= 1
            if depth == 0:
                return k == len(tokens) - 1
    return True


def random_tree(rnd: random.Random, depth: int) -> list:
    """token list of a random expression; parentheses inserted at random and where a tree needs them"""
    # (0x10b1, 0x7e0b01, 0xb0b: hexadecimal digits that spell another base's prefix)
    mags = [0, 1, 2, 3, 7, 0xFF, 0x100, 0xFFFF, 0x10000, 0x7FFFFF, 0xFFFFFF, 1 << 24, (1 << 32) - 1, 12345, 0x8000, 0x10b1, 0x7e0b01, 0xb0b]
    if depth == 0 or rnd.random() < 0.25:
        if rnd.random() < 0.2:
            return ["x"]
        return [rnd.choice(mags)]
    r = rnd.random()
    if r < 0.2:
        inner = random_tree(rnd, depth - 1)
        return [rnd.choice(["-", "~"])] + (inner if len(inner) == 1 or rnd.random() < 0.4 else ["("] + inner + [")"])
    if r < 0.35:
        return ["("] + random_tree(rnd, depth - 1) + [")"]
    op = rnd.choice(["*", "+", "-", "<<", ">>", "&", "|", "+", "-"])
    left = random_tree(rnd, depth - 1)
    right = random_tree(rnd, depth - 1)
    if op in ("<<", ">>"):
        # a shift count is a small literal and the shift is parenthesised: the flat token string is re-read by
        # precedence, and `a << 16 * 0xffffffff` would ask Python for a number of 10^11 bits
        return ["("] + (left if len(left) == 1 else ["("] + left + [")"]) + [op, rnd.choice([0, 1, 2, 4, 8, 12, 16, 24]), ")"]
    return left + [op] + right


def run(ctx) -> None:
    rnd = random.Random(ctx.seed)
    L_mc = 7 if ctx.quick else 8
    L_a = 4 if ctx.quick else 6
    ctx.rule = (f"design: all grammatical token strings of <= {L_mc} tokens over 13 tokens; conformance A: all such "
                f"strings of <= {L_a} tokens x contexts x renderings; B: random deep trees; non-trivial = distinct "
                "(token string, context) pairs whose value the statement defines")
    ctx.trusted = ["TLC 1.8", "spec/Expr.tla reference grammar", "spec/Wide.tla 48-bit arithmetic", "harness text renderer"]
    ctx.assumptions = ["values beyond 46 bits, negative shift counts, ~ of negative or >32-bit values and undefined "
                       "names are not judged", "operators / % ^ and comparisons are outside the check"]
    base = "INIT Init\nNEXT Next\nCHECK_DEADLOCK FALSE\nINVARIANT GrammarAccepts\nINVARIANT Agree\nINVARIANT Laws\n"
    r = tlc.run("MC_C06", base, tag="c06.mc", env={"MAXLEN": L_mc, "RULE": "intended", "EMIT": "0"}, workers=8, heap="3g")
    ctx.add_tlc(r, f"MC_C06 shunting-yard = grammar, all strings <= {L_mc}")
    # spec mutant: the pinned unary rule must be refuted (vacuity guard of Agree)
    m = tlc.run("MC_C06", base, tag="c06.mutant", env={"MAXLEN": 4, "RULE": "pinned", "EMIT": "0"}, allow_violation=True)
    if m.violated != "Agree":
        raise tlc.TLCFailure("spec mutant RULE=pinned was not refuted: invariant Agree is vacuous")
    ctx.note("spec mutant RULE=pinned refuted by TLC (Agree violated), as required")
    g = tlc.run("MC_C06", base + "INVARIANT Emit\n", tag="c06.gen", env={"MAXLEN": L_a, "RULE": "intended", "EMIT": "1"})
    ctx.add_tlc(g, f"MC_C06 as generator, strings <= {L_a}")
    strings = [s for s in g.printed if isinstance(s, list)]
    if len(strings) < 50:
        raise tlc.TLCFailure("generator produced too few strings")

    tasks, meta = [], []

    def add(tokens, tag, renderings):
        ctxs = contexts_for(tokens)
        for spacing, numstyle in renderings:
            text = render(tokens, spacing, numstyle, rnd)
            tasks.append({"text": text, "env": ENV, "ctxs": ctxs})
            meta.append((tokens, tag, text))

    allr = [(s, n) for s in ("none", "single", "irregular") for n in ("dec", "hexl", "hexu", "bin")]
    for s in strings:
        tokens = [int(t) if t.isdigit() else t for t in s]
        rs = [("single", "dec"), ("none", "hexl")] + ([rnd.choice(allr)] if ctx.quick else allr)
        add(tokens, "A", rs)
    nb = 400 if ctx.quick else 6000
    for k in range(nb):
        tokens = random_tree(rnd, rnd.choice([2, 3, 4, 5, 6]))
        add(tokens, f"B{k}", [rnd.choice(allr), ("single", "hexl")])
    res = Pool().map("expr_contexts", tasks, timeout=60)
    recs = []
    for (tokens, tag, text), outs in zip(meta, res):
        if isinstance(outs, dict):
            if outs.get("hang"):
                ctx.violation("hang:" + " ".join(map(str, tokens)), "evaluation did not terminate", {"text": text})
                continue
            raise tlc.TLCFailure(f"driver failed on {text!r}: {outs}")
        trec = tok_records(tokens)
        for o in outs:
            ctx.evaluations += 1
            obs = {"ok": o["ok"]}
            if o["ctx"] == "eval":
                obs["val"] = o["val"]
            else:
                obs["bytes"] = o["bytes"]
            rid = f"{o['ctx']}|{text}"
            recs.append({"id": rid, "toks": trec, "env": {k: to_wide(v) for k, v in ENV.items()}, "ctx": o["ctx"],
                         "obs": obs, "text": text, "tokens": [str(t) for t in tokens], "err": o.get("err")})
            ctx.nontrivial.add((" ".join(map(str, tokens)), o["ctx"]))
    ctx.sample({k: recs[0][k] for k in ("text", "ctx", "obs")})
    ctx.sample({k: recs[-1][k] for k in ("text", "ctx", "obs")})
    byid = {}
    for r_ in recs:
        byid[r_["id"]] = r_
    rejects, st, gen = tlc.judge_traces("TraceC06", list(byid.values()), tag="c06.trace", nshards=16)
    ctx.add_states(st, gen, "TraceC06 judging every (text, context) observation")
    ctx.traces += len(byid)
    for rj in rejects:
        r_ = byid[rj["id"]]
        key = f"{r_['ctx']}:{' '.join(classify(r_['tokens']))}"
        ctx.violation(key, rj["clause"], {"text": r_["text"], "ctx": r_["ctx"], "observed": r_["obs"], "error": r_["err"],
                                          "record": {k: r_[k] for k in ("id", "toks", "env", "ctx", "obs")}})


def classify(tokens: list[str]) -> list[str]:
    """known-findings key: the operator skeleton (numbers -> n, names -> v)"""
    return ["n" if t.isdigit() else ("v" if t.isalpha() else t) for t in tokens]


def replay(ctx, data) -> int:
    out = Pool(1).map("expr_contexts", [{"text": data["text"], "env": ENV, "ctxs": [data["ctx"]]}], timeout=60)[0]
    print("text:", data["text"], "context:", data["ctx"])
    print("re-observed:", out)
    rec = dict(data["record"])
    o = out[0]
    rec["obs"] = {"ok": o["ok"], **({"val": o["val"]} if data["ctx"] == "eval" else {"bytes": o["bytes"]})}
    rejects, _, _ = tlc.judge_traces("TraceC06", [rec], tag="c06.replay", nshards=1)
    print("TLC verdict:", rejects or "accepted")
    return 1 if rejects else 0
