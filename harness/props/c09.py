"""C09 — macro application equals the body inlined with parameters bound.
The Asm machine's macro semantics IS the statement: a fresh scope per application, each parameter bound
to its argument evaluated in the caller's scope (CallSiteArgs), code-block arguments spliced, macro-local
labels, forward references in arguments, undefined macro / too few arguments fail.
Design level: MC_Asm families 'macros', 'capture' and 'macro0' (Design invariant on every program).
Conformance: the same programs + seeded macro-heavy programs judged by TraceAsm."""
from __future__ import annotations

from harness import apr, asmfam


def run(ctx) -> None:
    q = ctx.quick
    fams = [("macros", 4 if q else 5), ("capture", 5 if q else 6), ("macro0", 5 if q else 6), ("splice", 6 if q else 7), ("splice2", 5 if q else 6), ("macroscope", 6 if q else 7), ("recur", 7), ("symparam", 5 if q else 6), ("spliceblk", 5 if q else 6), ("macrowidth", 5 if q else 6), ("codeprec", 4 if q else 5), ("spliceloop", 6 if q else 7)]
    ctx.rule = ("programs = every program over the 'macros' (<= %d), 'capture' (<= %d), 'macro0' (<= %d), 'splice' (<= %d), 'splice2' (<= %d) 'macroscope' (<= %d) and 'recur' (<= %d: recursion ended by a condition on the parameter), 'symparam' (<= %d), 'spliceblk' (<= %d), 'macrowidth' (<= %d), 'codeprec' (<= %d) and 'spliceloop' (<= %d) alphabets of MC_Asm + "
                "seeded macro-heavy APR trees; non-trivial = programs with at least one macro application" % tuple(L for _, L in fams))
    ctx.trusted = ["TLC 1.8", "spec/Asm.tla expansion (XStmt apply/splice/XArgs with callSite = TRUE)", "harness/apr.py renderer"]
    ctx.assumptions = ["too many arguments, a macro redefined with the same name and unbounded recursion depth > 12 are not judged"]
    n = 400 if q else 6000
    randoms = [apr.gen_program(ctx.seed * 32452843 + k, size=8 + k % 8, moves=False) for k in range(n)]
    progs, res, stats = asmfam.run_families(ctx, fams, randoms, "c09.trace", "TraceAsm judging macro programs")

    def has_apply(ss):
        return any(s["k"] == "apply" or any(has_apply(s[key]) for key in ("b", "t", "f", "body") if isinstance(s.get(key), list)) for s in ss)
    for k, p in enumerate(progs):
        if has_apply(p["body"]):
            ctx.nontrivial.add(k)
    ctx.sample({"source": res[len(progs) // 2]["src"], "observed": {kk: res[len(progs) // 2][kk] for kk in ("ok", "calls")}})


replay = asmfam.replay
