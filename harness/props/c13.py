"""C13 — `.include_ips` reproduces the patch's effect shifted by delta.
Design level: MC_C13 (reference reader inverts the reference encoder for all record sequences from a
menu; every proper prefix and a damaged header are rejected).  Conformance: the same record sequences,
encoded by the spec, included with every delta / placement in a surrounding program; truncated and
headerless variants must be rejected.  TraceC13 judges the writer calls against the program without
the directive."""
from __future__ import annotations

import random

from harness import tlc
from harness.pool import Pool

CFG = "INIT Init\nNEXT Next\nCHECK_DEADLOCK FALSE\nINVARIANT ReadBack\nINVARIANT MalformedRejected\nINVARIANT SameEffect\n"
DELTAS = [-0x200, -1, 0, 1, 0x200, 0x8000, 0x800000, 0xC00000]
PLACEMENTS = ["first", "between", "block", "after", "reloc_rom", "reloc_ram", "macro", "macro2"]


def kind(recs) -> str:
    ks = sorted({("rle" if r["rle"] else "plain") for r in recs})
    return "+".join(ks)


def run(ctx) -> None:
    rnd = random.Random(ctx.seed)
    ctx.rule = ("cases = (record sequence from MC_C13's menu, delta, placement, malformation); non-trivial = distinct "
                "(record sequence, delta, placement, malformation kind)")
    ctx.trusted = ["TLC 1.8", "spec/Ips.tla encoder/reader", "the fixed surrounding program in harness/drivers.py",
                   "spec/Asm.tla (ips statement) + harness/apr.py renderer/IPS encoder for the Asm part"]
    ctx.assumptions = ["records that overlap the surrounding program's bytes are not generated"]
    mr = 2 if ctx.quick else 3
    r = tlc.run("MC_C13", CFG, tag="c13.mc", env={"MAXRECS": 3, "EMIT": 0, "BIG": 0}, workers=4)
    ctx.add_tlc(r, "MC_C13 reader/encoder, <= 3 records")
    g = tlc.run("MC_C13", CFG + "INVARIANT Emit\n", tag="c13.gen", env={"MAXRECS": mr, "EMIT": 1, "BIG": 0})
    ctx.add_tlc(g, f"MC_C13 as generator (<= {mr} records)")
    vecs = [v for v in g.printed if "file" in v]
    gb = tlc.run("MC_C13", "INIT Init\nNEXT Next\nCHECK_DEADLOCK FALSE\nINVARIANT ReadBack\nINVARIANT Emit\n", tag="c13.genbig",
                 env={"MAXRECS": 1 if ctx.quick else 2, "EMIT": 1, "BIG": 1}, heap="3g")
    ctx.add_tlc(gb, "MC_C13 generator, maximum-length records")
    bigs = [v for v in gb.printed if "file" in v]
    gb2 = tlc.run("MC_C13", "INIT Init\nNEXT Next\nCHECK_DEADLOCK FALSE\nINVARIANT ReadBack\nINVARIANT Emit\n", tag="c13.genbuf",
                  env={"MAXRECS": 1, "EMIT": 1, "BIG": 2}, heap="3g")
    ctx.add_tlc(gb2, "MC_C13 generator, file lengths around 8192 (reader buffer size)")
    bufs = [v for v in gb2.printed if "file" in v]
    if len(vecs) < 20 or not bigs:
        raise tlc.TLCFailure("MC_C13 generator produced too few vectors")
    tasks, meta = [], []

    def add(v, delta, placement, malformed, file):
        tasks.append({"file": file, "delta": delta, "placement": placement, "file_entries": bool(malformed)})
        meta.append({"recs": v["recs"], "delta": delta, "placement": placement, "malformed": malformed})

    for v in vecs:
        combos = [(d, p) for d in DELTAS for p in PLACEMENTS]
        if ctx.quick:
            combos = rnd.sample(combos, 8)
        for d, p in combos:
            if min(rc["off"] for rc in v["recs"]) + d < 0:
                continue   # negative target offsets are not part of the statement
            add(v, d, p, "", v["file"])
        f = v["file"]
        cuts = sorted({len(f) - 1, len(f) - 3, len(f) - 4, 5, 6, 8, 10} | ({rnd.randrange(5, len(f))} if len(f) > 6 else set()))
        for t in cuts:
            if 0 <= t < len(f):
                add(v, 0, rnd.choice(PLACEMENTS), f"truncated@{t}", f[:t])
        add(v, 0, "first", "no-header", f[1:])
        add(v, 0, "between", "bad-magic", [80, 65, 84, 67, 88] + f[5:])
    for v in bufs:
        add(v, 0, "between", "", v["file"])
    for v in bigs:
        for d, p in ((0, "first"), (0x200, "between"), (-0x200, "after")):
            add(v, d, p, "", v["file"])
        add(v, 0, "block", "truncated@big", v["file"][:len(v["file"]) - 4])
    res = Pool().map("include_ips_case", tasks, timeout=120)
    recs = []
    kept = []
    for k, (m, o) in enumerate(zip(meta, res)):
        if o.get("hang"):
            ctx.violation(f"hang/{m['malformed'] or 'wellformed'}", "including the patch did not terminate", {"case": {**m, "file": tasks[k]["file"][:200]}})
            continue
        if o.get("driver_error") or o.get("crash"):
            raise tlc.TLCFailure(f"driver failed on {m['delta']}/{m['placement']}: {o}")
        if m["placement"] == "macro2":
            # two applications: the records at delta and again at delta + 0x40000
            m = dict(m, recs=m["recs"] + [dict(r_, off=r_["off"] + 0x40000) for r_ in m["recs"]])
        recs.append({"id": str(len(kept)), "recs": m["recs"], "delta": m["delta"], "malformed": bool(m["malformed"]),
                     "base": {k2: o["base"][k2] for k2 in ("ok", "calls", "labels")},
                     "with": {k2: o["with"][k2] for k2 in ("ok", "calls", "labels")}, "fe": o["fe"]})
        kept.append(k)
        ctx.evaluations += 1
        ctx.nontrivial.add((str([(rc["off"], len(rc["data"]), rc["rle"]) for rc in m["recs"]]), m["delta"], m["placement"], m["malformed"]))
    ctx.sample({"records": meta[0]["recs"], "delta": meta[0]["delta"], "placement": meta[0]["placement"],
                "calls_with_directive": res[0]["with"]["calls"][:4]})
    rejects, st, gen = tlc.judge_traces("TraceC13", recs, tag="c13.trace", nshards=16, heap="3g")
    ctx.add_states(st, gen, "TraceC13 judging writer calls")
    ctx.traces += len(recs)
    asm_part(ctx)
    for rj in rejects:
        rj = dict(rj, id=str(kept[int(rj["id"])]))
        m = meta[int(rj["id"])]
        o = res[int(rj["id"])]
        mk = m["malformed"].split("@")[0] if m["malformed"] else "wellformed"
        key = f"{kind(m['recs'])}/{mk}: {rj['clause'][:50]}"
        ctx.violation(key, rj["clause"], {"case": {**m, "file": tasks[int(rj["id"])]["file"][:200]},
                                          "task": tasks[int(rj["id"])] if len(tasks[int(rj["id"])]["file"]) < 5000 else None,
                                          "with": {"ok": o["with"]["ok"], "err": o["with"]["err"], "calls": o["with"]["calls"][:6]}})


def asm_part(ctx) -> None:
    """`.include_ips` as a statement of the Asm machine: every program over the 'ipsfam' alphabet (among position
    moves, blocks, loops, labels; delta a literal or a constant defined before/after the directive) and seeded
    programs with the directive anywhere; TraceAsm judges patch pairs and the program's own pairs separately."""
    from harness import apr, asmfam
    n = 300 if ctx.quick else 4000
    randoms = []
    k = 0
    while len(randoms) < n:
        p = apr.gen_program(ctx.seed * 86028121 + k, size=8 + k % 8)
        k += 1
        if '"ips"' in __import__("json").dumps(p):
            randoms.append(p)

    def key(p, clause, detail):
        return "asm:" + asmfam.default_key(p, clause, detail)
    progs, res, stats = asmfam.run_families(ctx, [("ipsfam", 4 if ctx.quick else 5)], randoms, "c13.asm", "TraceAsm judging programs with .include_ips", keyfn=key)
    for j in range(len(progs)):
        ctx.nontrivial.add(("asm", j))


def replay(ctx, data) -> int:
    if "prog" in data:
        from harness import asmfam
        return asmfam.replay(ctx, data)
    if not data.get("task"):
        print("replay of a large case: re-run the check")
        return 0
    o = Pool(1).map("include_ips_case", [data["task"]], timeout=120)[0]
    m = data["case"]
    rec = {"id": "replay", "recs": m["recs"], "delta": m["delta"], "malformed": bool(m["malformed"]),
           "base": {k2: o["base"][k2] for k2 in ("ok", "calls", "labels")},
           "with": {k2: o["with"][k2] for k2 in ("ok", "calls", "labels")}, "fe": o["fe"]}
    print("re-observed with directive:", o["with"])
    rejects, _, _ = tlc.judge_traces("TraceC13", [rec], tag="c13.replay", nshards=1)
    print("TLC verdict:", rejects or "accepted")
    return 1 if rejects else 0
