"""C08 — names resolve lexically; scopes isolate and named scopes export.
Design level: MC_Asm families 'scopes' (definitions/references of two names as label, `=`, `:=`, qualified
references, blocks and a named scope), 'nest' (deeper nesting over a small alphabet) and 'macro0'
(a parameterless macro with local labels, applied repeatedly).  Conformance: the same programs and seeded
larger ones; out-of-scope references must fail, everything else must produce the spec's image/labels."""
from __future__ import annotations

from harness import apr, asmfam
from harness.props import asm_mc  # noqa: F401


def run(ctx) -> None:
    q = ctx.quick
    fams = [("scopes", 4 if q else 6), ("nest", 6 if q else 7), ("macro0", 6 if q else 7), ("shadowdata", 5 if q else 6),
            ("loopleak", 5 if q else 7), ("deferarg", 6 if q else 7), ("symshadow", 5 if q else 6), ("assignleak", 5 if q else 6), ("fwdshadow", 7 if q else 8), ("exportleak", 5 if q else 6)]
    fams_more = [("underexport", 5 if q else 6)]   # round 8: underscore-leading names exported from named scopes
    ctx.rule = ("programs = every program over the 'scopes' (<= %d), 'nest' (<= %d), 'macro0' (<= %d), 'shadowdata' (<= %d), 'loopleak' (<= %d), "
                "'deferarg' (<= %d), 'symshadow' (<= %d), 'assignleak' (<= %d), 'fwdshadow' (<= %d) and 'exportleak' (<= %d) alphabets of MC_Asm + "
                "seeded APR trees (nesting <= 4, macros, loops); non-trivial = programs with a reference that crosses a "
                "scope boundary (counted: programs containing a block/scope/macro application)" % tuple(L for _, L in fams))
    ctx.trusted = ["TLC 1.8", "spec/Asm.tla Lookup/Define (static lexical scoping, one-level export)", "harness/apr.py renderer"]
    ctx.assumptions = ["re-definition of a name in one scope and more than one dot in a qualified name are not judged"]
    n = 400 if q else 6000
    randoms = [apr.gen_program(ctx.seed * 15485863 + k, size=8 + k % 10, maxdepth=4, moves=False) for k in range(n)]
    progs, res, stats = asmfam.run_families(ctx, fams + fams_more, randoms, "c08.trace", "TraceAsm judging scoping programs")
    for k, p in enumerate(progs):
        if any(s["k"] in ("block", "scope", "apply", "for") for s in p["body"]):
            ctx.nontrivial.add(k)
    ctx.sample({"source": res[len(progs) // 3]["src"], "observed": {kk: res[len(progs) // 3][kk] for kk in ("ok", "calls", "labels")}})


replay = asmfam.replay
