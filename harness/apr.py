"""Abstract program representation (APR): JSON trees shared by the TLA+ spec (Asm), the generators and
this renderer.  The renderer prints what the tree says (no semantics)."""
from __future__ import annotations

import random

SHAPE_FMT = {
    "imp": "{mn}", "imm": "{mn}{sfx} #{v}", "dir": "{mn}{sfx} {v}", "dirx": "{mn}{sfx} {v},x",
    "diry": "{mn}{sfx} {v},y", "dirs": "{mn}{sfx} {v},s", "ind": "{mn}{sfx} ({v})",
    "indy": "{mn}{sfx} ({v}),y", "indxi": "{mn}{sfx} ({v},x)", "indsy": "{mn}{sfx} ({v},s),y",
    "lng": "{mn}{sfx} [{v}]", "lngy": "{mn}{sfx} [{v}],y",
}


# ---- expression constructors -----------------------------------------------------------------
def num(v):
    return {"k": "num", "v": int(v)}


def ident(n):
    return {"k": "id", "n": n}


def binop(o, l, r):
    return {"k": "bin", "o": o, "l": l, "r": r}


def neg(e):
    return {"k": "un", "o": "-", "e": e}


def rexpr(e, top=True) -> str:
    k = e["k"]
    if k == "num":
        v = e["v"]
        if v < 0:
            return f"-{-v}" if top else f"(-{-v})"
        return f"0x{v:x}" if v > 9 and not e.get("dec") else str(v)
    if k == "id":
        return e["n"]
    if k == "big":
        t = f"0x{(e['hi'] << 24) | e['lo']:x}"
        return ("-" + t if top else f"(-{t})") if e["neg"] else t
    if k == "un":
        return f"-{rexpr(e['e'], False)}" if top else f"(-{rexpr(e['e'], False)})"
    s = f"{rexpr(e['l'], False)} {e['o']} {rexpr(e['r'], False)}"
    return s if top else f"({s})"


def operand_text(e) -> str:
    """an operand must not start with '(' (that is indirect addressing)"""
    t = rexpr(e)
    return t if not t.startswith("(") else "0 + " + t


def ips_file(recs) -> list[int]:
    """the bytes of an IPS file with these records (rle: a run-length record; data then holds the repeated byte)"""
    out = list(b"PATCH")
    for r in recs:
        out += [(r["off"] >> 16) & 0xFF, (r["off"] >> 8) & 0xFF, r["off"] & 0xFF]
        n = len(r["data"])
        if r.get("rle"):
            out += [0, 0, n >> 8, n & 0xFF, r["data"][0]]
        else:
            out += [n >> 8, n & 0xFF] + list(r["data"])
    return out + list(b"EOF")


def render_stmts(stmts, files, ind=0) -> list[str]:
    pad = "    " * ind
    out = []
    for s in stmts:
        k = s["k"]
        if k == "label":
            out.append(f"{pad}{s['n']}:")
        elif k == "sym":
            out.append(f"{pad}{s['n']} = {rexpr(s['e'])}")
        elif k == "assign":
            out.append(f"{pad}{s['n']} := {rexpr(s['e'])}")
        elif k == "op":
            sfx = "." + s["sfx"] if s["sfx"] else ""
            v = operand_text(s["e"]) if s["shape"] in ("dir", "dirx", "diry", "dirs") else (rexpr(s["e"]) if s["shape"] != "imp" else "")
            out.append(pad + SHAPE_FMT[s["shape"]].format(mn=s["mn"], sfx=sfx, v=v))
        elif k == "branch":
            out.append(f"{pad}{s['mn']} {operand_text(s['e'])}")
        elif k == "data":
            out.append(f"{pad}.{s['d']} " + ", ".join(rexpr(e) for e in s["es"]))
        elif k == "ascii":
            out.append(f"{pad}.ascii '" + (s["src"] if "src" in s else "".join(chr(c) for c in s["s"])) + "'")
        elif k == "table":
            out.append(f"{pad}.table 'tbl{s['t']}.tbl'")
        elif k == "text":
            out.append(f"{pad}.text '" + "".join(x["v"] if x["k"] == "c" else f"[0x{x['v']:02X}]" for x in s["s"]) + "'")
        elif k == "incbin":
            files[s["file"]] = {"bytes": s["bs"]}
            out.append(f"{pad}.incbin '{s['file']}'")
        elif k == "ips":
            files[s["file"]] = {"bytes": ips_file(s["recs"])}
            out.append(f"{pad}.include_ips '{s['file']}', {rexpr(s['delta'])}")
        elif k == "stareq":
            out.append(f"{pad}*={rexpr(s['e'])}")
        elif k == "ateq":
            out.append(f"{pad}@={rexpr(s['e'])}")
        elif k == "map":
            d = s["decl"]
            if s.get("dec"):
                # the same declaration with its numbers written in decimal
                line = (f".map identifier={d['id']} bank_range={d['b0']}, {d['b1']} "
                        f"addr_range={d['lo']}, {d['hi']} mask={d['mask']}")
                if d["m0"] != -1:
                    line += f" mirror_bank_range={d['m0']}, {d['m1']}"
            else:
                line = (f".map identifier={d['id']} bank_range=0x{d['b0']:02x}, 0x{d['b1']:02x} "
                        f"addr_range=0x{d['lo']:04x}, 0x{d['hi']:04x} mask=0x{d['mask']:x}")
                if d["m0"] != -1:
                    line += f" mirror_bank_range=0x{d['m0']:02x}, 0x{d['m1']:02x}"
            if d["ram"]:
                line += " writable=1"
            out.append(pad + line)
        elif k == "block":
            out.append(pad + "{")
            out += render_stmts(s["b"], files, ind + 1)
            out.append(pad + "}")
        elif k == "scope":
            out.append(f"{pad}.scope {s['n']} {{")
            out += render_stmts(s["b"], files, ind + 1)
            out.append(pad + "}")
        elif k == "include":
            sub = "\n".join(render_stmts(s["b"], files, 0)) + "\n"
            files[s["file"]] = {"text": sub}
            out.append(f"{pad}.include '{s['file']}'")
        elif k == "macro":
            out.append(f"{pad}.macro {s['n']}({', '.join(s['ps'])}) {{")
            out += render_stmts(s["b"], files, ind + 1)
            out.append(pad + "}")
        elif k == "apply":
            args = []
            for a in s["as"]:
                if a["k"] == "code":
                    args.append("{\n" + "\n".join(render_stmts(a["b"], files, ind + 1)) + "\n" + pad + "}")
                else:
                    args.append(rexpr(a))
            out.append(f"{pad}{s['n']}({', '.join(args)})")
        elif k == "splice":
            out.append(f"{pad}{{{{{s['p']}}}}}")
        elif k == "if":
            out.append(f"{pad}.if {rexpr(s['e'])} {{")
            out += render_stmts(s["t"], files, ind + 1)
            if s["hasf"]:
                out.append(pad + "} else {")
                out += render_stmts(s["f"], files, ind + 1)
            out.append(pad + "}")
        elif k == "for":
            out.append(f"{pad}.for {s['v']} := {rexpr(s['a'])}, {rexpr(s['b'])} {{")
            out += render_stmts(s["body"], files, ind + 1)
            out.append(pad + "}")
        else:
            raise ValueError(k)
    return out


def render(prog: dict) -> tuple[str, dict]:
    files: dict = {}
    for k, t in enumerate(prog.get("tables", []), 1):
        files[f"tbl{k}.tbl"] = {"text": "".join("".join(f"{b:02X}" for b in e["code"]) + "=" + "".join(e["text"]) + "\n" for e in t)}
    lines = render_stmts(prog["body"], files)
    return "\n".join(lines) + "\n", files


def symname(path: str) -> str:
    return path.replace("/", "_").replace(".", "_")


# ---- seeded generator of programs of the definite class ---------------------------------------
OPS_SUFFIXED = [("lda", "dir", "w"), ("lda", "dir", "l"), ("sta", "dir", "w"), ("jmp", "dir", "w"), ("jsr", "dir", "l"),
                ("lda", "imm", "w"), ("ldx", "imm", "w"), ("adc", "dirx", "l"), ("sta", "dirx", "w"), ("cmp", "dir", "l"),
                ("pea", "dir", "w"), ("and", "dir", "l"), ("jmp", "ind", "w"), ("lda", "diry", "w"), ("ora", "dir", "l")]
OPS_BYTE = [("lda", "dir", "b"), ("sta", "dirx", "b"), ("lda", "indy", "b"), ("lda", "lng", "b"), ("eor", "indxi", "b"),
            ("rep", "imm", "b"), ("ldy", "imm", "b"), ("lda", "dirs", "b"), ("sta", "lngy", "b"), ("lda", "indsy", "b")]
OPS_IMP = ["nop", "inx", "dey", "pha", "plb", "rts", "rtl", "xba", "asl", "clc"]
OPS_INFER = [("lda", "dir"), ("sta", "dir"), ("lda", "dirx"), ("adc", "dir"), ("lda", "imm"), ("cmp", "dir"),
             ("jmp", "ind"), ("jmp", "lng"), ("jsr", "dir"), ("lda", "ind"), ("lda", "indy")]
BRANCHES = ["bra", "beq", "bne", "bcc", "bcs", "bmi", "bpl"]


class Gen:
    """Generates a program tree with holes for references, then fills the holes from the names that are
    statically visible there (so every reference is definite by construction)."""

    def __init__(self, rnd: random.Random, rom: str = "low", macros: bool = True, moves: bool = True, maxdepth: int = 3,
                 size: int = 14, ips: bool = True):
        self.rnd = rnd
        self.rom = rom
        self.n = 0
        self.macros_on = macros
        self.moves_on = moves
        self.maxdepth = maxdepth
        self.size = size
        self.macro_defs: list[dict] = []
        self.consts: list[str] = []      # unique := names defined so far at top level (T0/T1-safe)
        self.files = 0
        self.ips_on = ips
        self.tables_on = rnd.random() < 0.35

    def fresh(self, p):
        self.n += 1
        return f"z{p}{self.n}"

    def hole(self, ctx):
        return {"k": "hole", "ctx": ctx}

    CUSTOM = {
        "customA": [{"id": "1", "b0": 0x00, "b1": 0x1F, "lo": 0x8000, "hi": 0xFFFF, "mask": 0x8000, "ram": False, "m0": 0x80, "m1": 0x9F},
                    {"id": "2", "b0": 0x7E, "b1": 0x7F, "lo": 0, "hi": 0xFFFF, "mask": 0x10000, "ram": True, "m0": -1, "m1": -1}],
        "customB": [{"id": "1", "b0": 0x40, "b1": 0x5F, "lo": 0, "hi": 0xFFFF, "mask": 0x10000, "ram": False, "m0": 0xC0, "m1": 0xDF},
                    {"id": "2", "b0": 0x7E, "b1": 0x7F, "lo": 0, "hi": 0xFFFF, "mask": 0x10000, "ram": True, "m0": -1, "m1": -1}],
        "customC": [{"id": "1", "b0": 0x10, "b1": 0x1F, "lo": 0, "hi": 0x7FFF, "mask": 0x8000, "ram": False, "m0": -1, "m1": -1},
                    {"id": "2", "b0": 0x7E, "b1": 0x7F, "lo": 0, "hi": 0xFFFF, "mask": 0x10000, "ram": True, "m0": -1, "m1": -1},
                    {"id": "3", "b0": 0x20, "b1": 0x21, "lo": 0x8000, "hi": 0xFFFF, "mask": 0x8000, "ram": False, "m0": 0xA0, "m1": 0xA1}],
    }

    def code_arg(self):
        """a `{ ... }` argument: closed statements only (it is spliced inside the application's scope)"""
        r = self.rnd
        b = []
        for _ in range(r.randint(0, 3)):
            if r.random() < 0.7:
                b.append({"k": "data", "d": r.choice(["db", "dw", "dl"]), "es": [num(r.choice([0, 1, 0x55, 0xFF, 0x1234])) for _ in range(r.choice([1, 2]))]})
            else:
                b.append({"k": "op", "mn": r.choice(["nop", "clc", "sei", "rts"]), "shape": "imp", "sfx": "", "e": num(0)})
        return {"k": "code", "b": b}

    def rom_addr(self):
        r = self.rnd
        if self.rom in self.CUSTOM:
            d = r.choice([x for x in self.CUSTOM[self.rom] if not x["ram"]])
            banks = [d["b0"], d["b0"] + 1, d["b1"]] + ([d["m0"], d["m1"]] if d["m0"] != -1 else [])
            bank = r.choice(banks)
            off = r.choice([d["lo"], d["lo"] + 0x123, d["hi"] - 5, d["hi"] - 1, (d["lo"] + d["hi"]) // 2])
            if bank in (d["b1"], d["m1"]) and off > d["hi"] - 0x200:
                off = d["lo"] + 0x40      # stay inside the mapped range at the last bank
            return (bank << 16) | off
        if self.rom == "high":
            return r.choice([0xC00000, 0xC10000, 0xC2FFF0, 0x408000, 0xD01234, 0xC1FFFC, 0x7D0000, 0xFE8000]) + r.choice([0, 0, 1, 2])
        # (banks 0x50 / 0x6F / 0xCF: the last banks of the primary range, beyond and at the end of the mirror range)
        return r.choice([0x008000, 0x018000, 0x02FFF0, 0x038000, 0x0F9000, 0x808000, 0x81FFF8, 0x00FFFA, 0x508000, 0x6F8010,
                         0xCF8000]) + r.choice([0, 0, 1, 3])

    def reloc_addr(self):
        r = self.rnd
        if r.random() < 0.5:
            return r.choice([0x7E2000, 0x7E0100, 0x7F0000, 0x7EFFF0])
        return self.rom_addr()

    def stmts(self, depth, count, in_macro=None, toplevel=False):
        out = []
        r = self.rnd
        for _ in range(count):
            x = r.random()
            if self.tables_on and in_macro is None and r.random() < 0.12:
                if r.random() < 0.25 and depth > 0:
                    out.append({"k": "table", "t": 2})
                syms = [{"k": "c", "v": "a"}, {"k": "c", "v": "b"}, {"k": "c", "v": "c"}, {"k": "c", "v": "q"}, {"k": "j", "v": r.choice([0, 0x41, 0xFF])}]
                out.append({"k": "text", "s": [r.choice(syms) for _ in range(r.randint(0, 6))]})
                continue
            if x < 0.16:
                out.append({"k": "label", "n": self.fresh("l")})
            elif x < 0.30:
                d = r.choice(["db", "dw", "dl", "pointer", "dl"])
                out.append({"k": "data", "d": d, "es": [self.hole("t3") for _ in range(r.choice([1, 1, 2, 3]))]})
            elif x < 0.42:
                mn, sh, sfx = r.choice(OPS_SUFFIXED)
                out.append({"k": "op", "mn": mn, "shape": sh, "sfx": sfx, "e": self.hole("t3")})
            elif x < 0.48:
                mn, sh, sfx = r.choice(OPS_BYTE)
                out.append({"k": "op", "mn": mn, "shape": sh, "sfx": sfx, "e": self.hole("lit8")})
            elif x < 0.54:
                out.append({"k": "op", "mn": r.choice(OPS_IMP), "shape": "imp", "sfx": "", "e": num(0)})
            elif x < 0.60:
                mn, sh = r.choice(OPS_INFER)
                ctx_ = "t1imm" if sh == "imm" else ("t1w" if mn in ("jmp", "jsr") else ("lit8" if sh in ("ind", "indy") else "t1"))
                out.append({"k": "op", "mn": mn, "shape": sh, "sfx": "", "e": self.hole(ctx_)})
            elif x < 0.65:
                out.append({"k": "sym", "n": self.fresh("s"), "e": self.hole("t2")})
            elif x < 0.70:
                n = self.fresh("c")
                out.append({"k": "assign", "n": n, "e": num(r.choice([0, 1, 0x10, 0xFF, 0x100, 0x1234, 0xFFFF, 0x10000, 0x7E1234]))})
                if toplevel and in_macro is None:
                    self.consts.append(n)
            elif x < 0.715 and self.ips_on and in_macro is None:
                self.files += 1
                recs = []
                for j in range(r.randint(1, 3)):
                    n = r.choice([1, 2, 5])
                    rle = r.random() < 0.3
                    data = [r.choice([0, 0x55, 0xFF])] * n if rle else [(self.files * 17 + j * 5 + m) % 256 for m in range(n)]
                    recs.append({"off": 0x300000 + self.files * 0x400 + j * 0x10 + r.choice([0, 0, 3]), "data": data, "rle": rle})
                cands = [c for c in self.consts]
                delta = ident(r.choice(cands)) if cands and r.random() < 0.3 else num(r.choice([0, 0, 0x200, -0x200, 0x10000, -0x300000]))
                out.append({"k": "ips", "file": f"p{self.files}.ips", "recs": recs, "delta": delta})
            elif x < 0.74:
                out.append({"k": "ascii", "s": [ord(c) for c in r.choice(["A", "hello", "SNES rom", "0123456789abcdef"])]})
            elif x < 0.78 and in_macro is None:
                self.files += 1
                ln = r.choice([0, 1, 2, 5, 33, 300])
                f = f"bin{self.files}.dat"
                out.append({"k": "incbin", "file": f, "sym": symname(f), "bs": [(7 * j + self.files) % 256 for j in range(ln)]})
            elif x < 0.84 and depth < self.maxdepth:
                out.append({"k": "block", "b": self.stmts(depth + 1, r.randint(1, 4), in_macro)})
            elif x < 0.89 and depth < self.maxdepth and in_macro is None:
                out.append({"k": "scope", "n": self.fresh("n"), "b": self.stmts(depth + 1, r.randint(1, 4), in_macro)})
            elif x < 0.93 and self.moves_on and in_macro is None and depth == 0:
                if r.random() < 0.55:
                    out.append({"k": "stareq", "e": dict(num(self.rom_addr()), dec=r.random() < 0.3)})
                else:
                    out.append({"k": "ateq", "e": dict(num(self.reloc_addr()), dec=r.random() < 0.3)})
            elif x < 0.97 and self.macros_on and self.macro_defs and in_macro is None:
                m = r.choice(self.macro_defs)
                out.append({"k": "apply", "n": m["n"], "as": [self.code_arg() if p_ in m.get("_code", ()) else self.hole("arg") for p_ in m["ps"]]})
            elif depth < self.maxdepth and in_macro is None and self.macros_on:
                if r.random() < 0.5:
                    out.append({"k": "for", "v": self.fresh("i"), "a": num(r.choice([0, 1, 3])), "b": num(r.choice([0, 2, 4])),
                                "body": self.stmts(depth + 1, r.randint(1, 3), in_macro), "loop": True})
                else:
                    out.append({"k": "if", "e": num(r.choice([0, 1, 2])), "t": self.stmts(depth + 1, r.randint(1, 2), in_macro),
                                "hasf": r.random() < 0.5, "f": self.stmts(depth + 1, r.randint(1, 2), in_macro)})
            else:
                out.append({"k": "op", "mn": "nop", "shape": "imp", "sfx": "", "e": num(0)})
        return out

    def program(self) -> dict:
        r = self.rnd
        body = []
        if self.macros_on:
            for _ in range(r.choice([0, 1, 2])):
                ps = [self.fresh("p") for _ in range(r.choice([0, 1, 2, 2, 3]))]
                # code parameters (spliced with {{p}}) in any position, value parameters in the others
                code = [p_ for p_ in ps if r.random() < 0.3]
                vals = [p_ for p_ in ps if p_ not in code]
                mb = []
                for _ in range(r.randint(1, 3)):
                    y = r.random()
                    if y < 0.3:
                        mb.append({"k": "label", "n": self.fresh("l")})
                    elif y < 0.7 and vals:
                        mb.append({"k": "data", "d": r.choice(["db", "dw", "dl"]), "es": [ident(r.choice(vals))]})
                    else:
                        mb.append({"k": "data", "d": "dl", "es": [self.hole("t3")]})
                for p_ in code:
                    for _ in range(r.choice([1, 1, 2])):
                        mb.insert(r.randint(0, len(mb)), {"k": "splice", "p": p_})
                m = {"k": "macro", "n": self.fresh("m"), "ps": ps, "b": mb, "_code": code}
                self.macro_defs.append(m)
                body.append(m)
        if self.rom in self.CUSTOM:
            d0 = self.CUSTOM[self.rom][0]
            # sometimes a position move stands BEFORE the .map lines (the declarations hold for the whole program)
            # (placed so that its bytes cross the end of the first bank's window: the bus in force decides where they go on)
            early = [{"k": "stareq", "e": num((d0["b0"] << 16) + d0["hi"] - 1)}, {"k": "data", "d": "db", "es": [num(0xE1), num(0xE2), num(0xE3)]},
                     {"k": "label", "n": self.fresh("l")}, {"k": "data", "d": "db", "es": [num(0xE4)]}] if r.random() < 0.3 else []
            decfmt = r.random() < 0.35
            body = early + [{"k": "map", "decl": d, "dec": decfmt} for d in self.CUSTOM[self.rom]] + body
            body.append({"k": "stareq", "e": num((d0["b0"] << 16) + d0["lo"] + r.choice([0, 0, 0x100]))})
        else:
            start = 0xC00000 if self.rom == "high" else 0x008000
            body.append({"k": "stareq", "e": num(start + r.choice([0, 0, 0x100, 0x7FF0]))})
        if self.tables_on:
            body.append({"k": "table", "t": 1})
        body += self.stmts(0, self.size, toplevel=True)
        prog = {"rom": "low" if self.rom in self.CUSTOM else self.rom, "defines": [], "body": body}
        if self.tables_on:
            prog["tables"] = [[{"text": ["a"], "code": [1]}, {"text": ["b"], "code": [2]}, {"text": ["a", "b"], "code": [3]},
                               {"text": ["c"], "code": [0, 0x43]}],
                              [{"text": ["a"], "code": [0x11]}, {"text": ["b", "a"], "code": [0x12, 0x13]}]]
        self.fill(prog["body"], [self.collect(prog["body"])], [])
        return prog

    # names defined directly in a statement list (labels, syms, assigns, incbin, exports of named scopes);
    # `.if` bodies and includes splice into the enclosing scope
    def collect(self, stmts):
        d = {"lab": [], "sym": [], "const": [], "exp": []}
        for s in stmts:
            k = s["k"]
            if k == "label":
                d["lab"].append(s["n"])
            elif k == "sym":
                d["sym"].append(s["n"])
            elif k == "assign":
                d["const"].append(s["n"])
            elif k == "incbin":
                d["lab"].append(s["sym"])
            elif k == "scope":
                inner = self.collect(s["b"])
                d["exp"] += [f"{s['n']}.{x}" for x in inner["lab"] + inner["const"]]
            elif k == "if":
                # the untaken branch defines nothing: only take names from the branch the constant condition selects
                taken = s["t"] if s["e"]["v"] != 0 else (s["f"] if s["hasf"] else [])
                inner = self.collect(taken)
                for key in d:
                    d[key] += inner[key]
        return d

    def fill(self, stmts, chain, consts_before):
        """chain: list of name tables from outermost to innermost scope"""
        r = self.rnd
        seen_consts = list(consts_before)

        def visible(kinds):
            out = []
            for t in chain:
                for kk in kinds:
                    out += t[kk]
            return out

        def pick(ctx):
            if ctx == "lit8":
                return num(r.choice([0, 1, 0x10, 0x7F, 0x80, 0xFF]))
            if ctx == "t1w":
                return num(r.choice([0x100, 0x1234, 0x8000, 0xFFFF]))
            if ctx in ("t1", "t1imm"):
                cands = [c for c in seen_consts if c in self.consts]
                if cands and r.random() < 0.6:
                    return ident(r.choice(cands))
                vals = [0, 0x12, 0xFF, 0x100, 0x1234, 0xFFFF] + ([] if ctx == "t1imm" else [0x10000, 0x7E1234])
                return num(r.choice(vals))
            kinds = ["lab", "const", "exp"] if ctx in ("t2", "arg") else ["lab", "const", "exp", "sym"]
            names = visible(kinds)
            x = r.random()
            if names and x < 0.7:
                e = ident(r.choice(names))
                if r.random() < 0.25:
                    e = binop(r.choice(["+", "-"]), e, num(r.choice([1, 2, 0x10])))
                return e
            return num(r.choice([0, 1, 0x7F, 0xFF, 0x100, 0xFFFF, 0x10000, 0x123456, 0xFFFFFF]))

        for s in stmts:
            k = s["k"]
            if k == "assign":
                seen_consts.append(s["n"])
            for key in ("e", "a", "b"):
                if key in s and isinstance(s[key], dict) and s[key].get("k") == "hole":
                    s[key] = pick(s[key]["ctx"])
            if "es" in s:
                s["es"] = [pick(e["ctx"]) if e.get("k") == "hole" else e for e in s["es"]]
            if "as" in s:
                s["as"] = [pick(a["ctx"]) if a.get("k") == "hole" else a for a in s["as"]]
            if k in ("block", "scope"):
                self.fill(s["b"], chain + [self.collect(s["b"])], seen_consts)
            elif k == "macro":
                # macro bodies are expanded at the call sites, all of which are at top level here:
                # free names must come from the top level (never the macro's own labels of another application)
                self.fill(s["b"], [chain[0], {"lab": [x["n"] for x in s["b"] if x["k"] == "label"], "sym": [], "const": [], "exp": []}], [])
            elif k == "if":
                self.fill(s["t"], chain, seen_consts)
                if s["hasf"]:
                    self.fill(s["f"], chain, seen_consts)
            elif k == "for":
                t = self.collect(s["body"])
                t["sym"] = t["sym"] + [s["v"]]
                self.fill(s["body"], chain + [t], seen_consts)


def gen_program(seed: int, **kw) -> dict:
    rnd = random.Random(seed)
    rom = kw.pop("rom", None) or rnd.choice(["low", "low", "high", "customA", "customB", "customC"])
    return Gen(rnd, rom=rom, **kw).program()
