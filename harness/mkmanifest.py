#!/usr/bin/env python3-vt
"""Regenerates /verif/MANIFEST.json from the table below and validates it against the schema."""
import json
import sys
from pathlib import Path

VERIF = Path(__file__).resolve().parent.parent

CLAIMED = {
    # id: (design_ref, technique, level text, level note)
    "C04": ("§6 C04", "TLA+ spec (Bus) model-checked with TLC + trace validation of the real Bus/Address over all 2^24 addresses",
            "Bus laws are invariants of spec/Bus.tla checked by TLC (MC_C04: both built-in maps and ~80 generated .map "
            "shapes); the real Bus/Address objects are evaluated on all 2^24 addresses of LoROM and HiROM plus boundary and "
            "chained increments and TLC-enumerated .map configurations, recorded losslessly and every record judged by TLC "
            "against the same module (TraceC04). Adjunct, not relied upon: Apalache discharges the advance law symbolically "
            "for arbitrary single ROM declarations (spec/apalache/BusApa.tla). A failure to declare a valid .map configuration "
            "is an observation judged by TraceC04.",
            "Trusts TLC, the run-length recorder in harness/drivers.py and that Bus.tla states C04; ROM-bank addresses "
            "outside the window and increments leaving the mapped range are not judged."),
    "C20": ("§6 C20", "TLA+ spec (Legacy, Bus) model-checked with TLC + trace validation of the real functions over the 4 MiB range",
            "Closed forms in spec/Legacy.tla are checked against Bus by TLC (MC_C20); rom_to_snes/snes_to_rom and the "
            "pointer formulas are evaluated over every offset < 4 MiB in all three modes, recorded as affine runs and "
            "judged by TLC (TraceC20) together with the file offset the real bus of each mode gives the converted address "
            "(must agree wherever the specified bus maps it as ROM); before a mode is measured the other two modes are used "
            "in the same process.",
            "Trusts TLC and the run-length recorder; quick tier judges run ends and strided interior points, thorough "
            "judges pointwise."),
}

PENDING_REASON = "check not built yet in this round (planned with the same technique, see DESIGN.md §6/§11)"


def main() -> int:
    props = [json.loads(l) for l in open(VERIF / "properties.jsonl")]
    extra = {}
    reg = VERIF / "harness" / "registry.json"
    if reg.exists():
        extra = json.load(open(reg))
    claimed = dict(CLAIMED)
    for k, v in extra.items():
        claimed[k] = tuple(v)
    checks = []
    na = []
    for p in props:
        pid = p["id"]
        if pid in claimed and (VERIF / "harness" / "props" / f"{pid.lower()}.py").exists():
            ref, tech, text, note = claimed[pid]
            checks.append({
                "property_id": pid,
                "quick_cmd": f"./check {pid} --tier quick",
                "thorough_cmd": f"./check {pid} --tier thorough",
                "evidence_file": f"/verif/evidence/{pid}.json",
                "replay_cmd_template": f"./check {pid} --replay {{path}}",
                "engine": "tlc",
                "level_claimed": {"category": "model_checking", "text": text, "design_ref": ref},
                "level_note": note,
                "technique": tech,
            })
        else:
            na.append({"property_id": pid, "reason": PENDING_REASON})
    man = {
        "version": 1,
        "setup_cmd": "/venv/bin/python harness/setup.py",
        "hooks": {
            "guard": "A816_VERIF",
            "enable": "checks export A816_VERIF=1; no source hooks exist in /repo (observation through the public API only)",
            "baseline_off_cmd": "cd /repo && env -u A816_VERIF /venv/bin/python -m pytest -ra -q -p no:cacheprovider --timeout=900",
            "source_commits": [],
            "add_only": True,
        },
        "engines": [{"name": "tlc", "path": "/opt/veriftools/tla/tla2tools.jar",
                     "serves_properties": [c["property_id"] for c in checks],
                     "kind_free_text": "TLC 1.8 model checker on the TLA+ specification suite in /verif/spec; "
                                       "conformance by replaying TLC-generated vectors into a816 and validating recorded "
                                       "traces of a816 with TLC"}],
        "checks": checks,
        "not_applicable": na,
        "notes": "All checks: ./check <id> --tier quick|thorough. VERIF_SEED selects random choices. See DESIGN.md.",
    }
    (VERIF / "MANIFEST.json").write_text(json.dumps(man, indent=1) + "\n")
    try:
        import jsonschema
        jsonschema.validate(man, json.load(open("/root/.vp/MANIFEST.schema.json")))
        print("MANIFEST.json valid;", len(checks), "checks,", len(na), "not_applicable")
    except ImportError:
        print("jsonschema not importable here; wrote MANIFEST.json unvalidated")
    return 0


if __name__ == "__main__":
    sys.exit(main())
