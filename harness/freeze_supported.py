#!/venv/bin/python
"""Deliberate, manual step: recompute spec/IsaSupported.tla from the code in VERIF_REPO (/repo).
Runs the C01 case space with FREEZE=1 (nothing supported) and keeps every ISA-defined
(mnemonic, shape, width) that assembled to the ISA bytes in lower case, literal operand."""
import os
import sys
from pathlib import Path

HERE = Path(__file__).resolve().parent.parent
os.chdir(HERE)
sys.path.insert(0, str(HERE))
from harness import tlc  # noqa: E402
from harness.core import Ctx  # noqa: E402
from harness.props import c01  # noqa: E402

ctx = Ctx("C01", "quick", 0)
cases = c01.gen_cases(ctx)
recs = c01.observe(ctx, cases, [("lower", "lit")])
work = tlc.OUT / "traces" / "c01.freeze"
rej, _, _ = None, None, None
import json  # noqa: E402
work.mkdir(parents=True, exist_ok=True)
f = work / "t.ndjson"
with open(f, "w") as fh:
    for r in recs:
        fh.write(json.dumps(r) + "\n")
r = tlc.run("TraceC01", "INIT Init\nNEXT Next\nINVARIANT Judge\nCHECK_DEADLOCK FALSE\n", tag="c01.freeze",
            env={"TRACE_FILE": str(f), "FREEZE": "1"})
good = set()
for x in r.printed:
    if "good" in x:
        for t in x["good"]:
            good.add(tuple(t))
bad = [x for x in r.printed if "fails" in x]
print(len(good), "supported combinations;", len(bad), "records with violations")
lines = []
cur = ""
for t in sorted(good):
    item = f'<<"{t[0]}","{t[1]}",{t[2]}>>'
    if len(cur) + len(item) > 100:
        lines.append(cur)
        cur = ""
    cur += item + ", "
lines.append(cur.rstrip(", "))
body = ",\n  ".join(l.rstrip(", ") for l in lines)
(HERE / "spec" / "IsaSupported.tla").write_text(f'''---------------------------- MODULE IsaSupported ----------------------------
(* Frozen data: the (mnemonic, shape, width) combinations a816 assembles at the pinned     *)
(* commit (after the C01 repairs).  C01: "every combination in the assembler's supported   *)
(* set keeps assembling".  Regenerate with harness/freeze_supported.py only deliberately.  *)
Supported == {{
  {body}
}}
=============================================================================
''')
for x in bad[:40]:
    print(x)
