"""Piecer for C16: splits the lines of a base program into typed pieces (the abstraction Layout.tla works
on).  Trusted, ~70 lines, no semantics: rendering the pieces without annotations reproduces the base
text up to runs of blanks (checked by the caller: the normalised base must assemble like the original)."""
from __future__ import annotations

import re

TOKEN = re.compile(r"""
    (?P<str>'[^'\n]*')
  | (?P<hex>0x[0-9a-fA-F]+)
  | (?P<bin>0b[01]+)
  | (?P<dec>\d+)
  | (?P<kw>\.[a-z_]+)
  | (?P<id>[A-Za-z_][A-Za-z0-9_]*(?:\.[A-Za-z0-9_]+)?:?)
  | (?P<multi>:=|\*=|@=|<<|>>|\{\{|\}\})
  | (?P<ws>[ \t]+)
  | (?P<ch>.)
""", re.X)
OPS = {"+", "-", "*", "&", "|", "<<", ">>"}


def pieces(line: str, mnemonics: set[str]) -> list[dict]:
    out: list[dict] = []
    s = line.strip()
    m = re.match(r"^([A-Za-z]{3})(\.[bwlBWL])?(?=[ \t]|$)", s)
    opcode_line = bool(m and m.group(1).lower() in mnemonics)
    pos = 0
    # `name = value`: the first `=` of the line is the definition operator
    assign_line = bool(re.match(r"^[A-Za-z_][A-Za-z0-9_]*[ \t]*=", s)) and not opcode_line
    seen_asg = False
    if opcode_line:
        out.append({"t": "mn", "s": m.group(1).lower(), "u": m.group(1).upper(), "m": m.group(1).capitalize()})
        if m.group(2):
            out.append({"t": "sfx", "s": m.group(2).lower(), "u": m.group(2).upper()})
        pos = m.end()
    for t in TOKEN.finditer(s, pos):
        kind, text = t.lastgroup, t.group()
        if kind == "ws":
            out.append({"t": "sp", "s": " ", "u": " "})
        elif kind == "hex":
            out.append({"t": "hex", "s": "0x" + text[2:].lower(), "u": "0x" + text[2:].upper()})
        elif kind == "multi" and text in OPS or kind == "ch" and text in OPS:
            out.append({"t": "op", "s": text, "u": text})
        elif kind == "multi" and text == ":=" or (kind == "ch" and text == "=" and assign_line and not seen_asg):
            out.append({"t": "asg", "s": text, "u": text})
            seen_asg = True
        elif kind == "ch" and text == ",":
            out.append({"t": "comma", "s": text, "u": text})
        elif kind == "ch" and text in "([" and opcode_line:
            out.append({"t": "lb", "s": text, "u": text})
        elif kind == "ch" and text in ")]" and opcode_line:
            # a blank may go between the bracket and the EXPRESSION it encloses, not after an inner index register
            prev = [p for p in out if p["t"] != "sp"][-1]["t"]
            out.append({"t": "other" if prev == "idx" else "rb", "s": text, "u": text})
        elif kind == "id" and opcode_line and text.lower() in ("x", "y", "s") and out and \
                [p for p in out if p["t"] != "sp"][-1]["t"] == "comma":
            out.append({"t": "idx", "s": text.lower(), "u": text.upper()})
        else:
            out.append({"t": "other", "s": text, "u": text})
    # drop blanks next to pieces that may get optional blanks anyway, keep mandatory ones
    return out


def base_json(text: str, mnemonics: set[str], max_runs: int = 10) -> dict:
    raw = [l for l in text.split("\n") if l.strip() != ""]
    lines = [pieces(l, mnemonics) for l in raw]
    depth, depths = 0, []
    for l in raw:
        depth += l.count("{") - l.count("}") - 2 * l.count("{{") + 2 * l.count("}}") if "'" not in l else 0
        depths.append(depth)
    runs = []
    n = len(raw)
    for i in range(1, n + 1):
        if i > 1 and depths[i - 2] != 0:
            continue
        for k in range(i, n + 1):
            if depths[k - 1] == 0:
                runs.append([i, k])
    step = max(1, len(runs) // max_runs)
    # always keep the one-line runs whose line ends in a one-digit literal (what an included file may end with)
    keep = [r for r in runs if r[0] == r[1] and re.search(r"(?<![0-9A-Za-z_])[0-9]$", raw[r[0] - 1].strip())]
    runs = runs[::step][:max_runs] + [r for r in keep[:4] if r not in runs[::step][:max_runs]]
    return {"lines": lines, "runs": runs, "text": "\n".join("".join(p["s"] for p in l) for l in lines) + "\n"}
