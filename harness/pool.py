"""Killable worker pool: runs driver functions against the real code in forked processes, with a
per-item watchdog.  A hung item is reported as {"hang": True}, its worker is killed and replaced,
and the remaining items of its batch are re-queued."""
from __future__ import annotations

import importlib
import multiprocessing as mp
import os
import sys
import time
import traceback
from multiprocessing.connection import wait


def _worker(conn, modname: str) -> None:
    try:
        devnull = open(os.devnull, "w")
        sys.stdout = devnull           # a816 prints diagnostics; keep check output clean
        sys.stderr = devnull
        mod = importlib.import_module(modname)
        while True:
            msg = conn.recv()
            if msg is None:
                return
            fname, items = msg
            fn = getattr(mod, fname)
            for idx, arg in items:
                try:
                    res = fn(arg)
                except BaseException as e:  # driver bug -> machinery failure upstream
                    res = {"driver_error": f"{type(e).__name__}: {e}", "tb": traceback.format_exc()[-1500:]}
                conn.send((idx, res))
            conn.send(("done", None))
    except (EOFError, KeyboardInterrupt):
        return


class Pool:
    def __init__(self, nproc: int | None = None, modname: str = "harness.drivers"):
        self.n = nproc or min(16, os.cpu_count() or 4)
        self.modname = modname
        self.ctx = mp.get_context("fork")

    def _spawn(self):
        a, b = self.ctx.Pipe()
        p = self.ctx.Process(target=_worker, args=(b, self.modname), daemon=True)
        p.start()
        b.close()
        return p, a

    def map(self, fname: str, args: list, timeout: float = 20.0, batch: int | None = None) -> list:
        n = len(args)
        results: list = [None] * n
        if n == 0:
            return results
        batch = batch or max(1, min(200, n // (self.n * 4) or 1))
        queue = [list(range(i, min(i + batch, n))) for i in range(0, n, batch)]
        queue.reverse()
        workers = {}  # conn -> dict(proc, pending(list idx), last)
        nw = min(self.n, len(queue))

        def give(conn):
            if queue:
                idxs = queue.pop()
                workers[conn]["pending"] = list(idxs)
                workers[conn]["busy"] = True
                workers[conn]["last"] = time.time()
                conn.send((fname, [(i, args[i]) for i in idxs]))
                return True
            return False

        for _ in range(nw):
            p, c = self._spawn()
            workers[c] = {"proc": p, "pending": [], "last": time.time()}
            give(c)
        remaining = n
        while remaining > 0:
            busy = [c for c, w in workers.items() if w.get("busy")]
            if not busy:
                # all idle but work left (after respawn)
                for c in list(workers):
                    if not give(c):
                        break
                busy = [c for c, w in workers.items() if w.get("busy")]
                if not busy:
                    break
            ready = wait(busy, timeout=0.5)
            now = time.time()
            for c in ready:
                w = workers[c]
                try:
                    idx, res = c.recv()
                except (EOFError, OSError):
                    # worker died (segfault / os._exit): blame the first pending item
                    idx = w["pending"].pop(0)
                    results[idx] = {"crash": True}
                    remaining -= 1
                    rest = w["pending"]
                    w["proc"].kill()
                    del workers[c]
                    if rest:
                        queue.append(rest)
                    p, nc = self._spawn()
                    workers[nc] = {"proc": p, "pending": [], "last": now}
                    give(nc)
                    continue
                if idx == "done":
                    w["pending"] = []
                    w["busy"] = False
                    give(c)
                else:
                    results[idx] = res
                    if idx in w["pending"]:
                        w["pending"].remove(idx)
                    w["last"] = now
                    remaining -= 1
            for c in list(workers):
                w = workers[c]
                if w["pending"] and now - w["last"] > timeout:
                    idx = w["pending"].pop(0)
                    results[idx] = {"hang": True, "timeout_s": timeout}
                    remaining -= 1
                    rest = w["pending"]
                    w["proc"].kill()
                    w["proc"].join(1)
                    c.close()
                    del workers[c]
                    if rest:
                        queue.append(rest)
                    p, nc = self._spawn()
                    workers[nc] = {"proc": p, "pending": [], "last": time.time()}
                    give(nc)
        for c, w in workers.items():
            try:
                c.send(None)
            except Exception:
                pass
            w["proc"].join(0.5)
            if w["proc"].is_alive():
                w["proc"].kill()
        # a watchdog hit may be the machine's load, not the code: every item reported as hung is run once more, alone,
        # with a much longer limit; only an item that hangs again stays a hang
        hung = [i for i, r in enumerate(results) if isinstance(r, dict) and r.get("hang")]
        if hung and not getattr(self, "_confirming", False):
            again = Pool(1, modname=self.modname)
            again._confirming = True
            for i in hung[:40]:
                r2 = again.map(fname, [args[i]], timeout=max(120.0, 6 * timeout), batch=1)[0]
                if not (isinstance(r2, dict) and r2.get("hang")):
                    results[i] = r2
        return results
