"""Check context: accumulates what a run covered, matches violations against the committed
known-findings file, writes the evidence file and replay files, and sets the exit status.
R1: nothing in this module judges an observation."""
from __future__ import annotations

import hashlib
import json
import os
import re
import sys
import time
from pathlib import Path

VERIF = Path(__file__).resolve().parent.parent
# VERIF_OUT redirects scratch output AND evidence (runs against scratch trees must not touch the committed evidence)
OUT = Path(os.environ["VERIF_OUT"]) if os.environ.get("VERIF_OUT") else VERIF / "out"
EVIDENCE = OUT / "evidence" if os.environ.get("VERIF_OUT") else VERIF / "evidence"
REPO = Path(os.environ.get("VERIF_REPO", "/repo"))
GUARD = "A816_VERIF"


def stable_hash(obj) -> str:
    return hashlib.sha1(json.dumps(obj, sort_keys=True, separators=(",", ":")).encode()).hexdigest()[:12]


def safe_name(s: str) -> str:
    return re.sub(r"[^A-Za-z0-9_.-]+", "_", s)[:120]


class Ctx:
    def __init__(self, prop: str, tier: str, seed: int):
        self.prop = prop
        self.tier = tier
        self.seed = seed
        self.t0 = time.time()
        self.states = 0
        self.transitions = 0
        self.traces = 0            # vectors replayed into the code + traces validated by TLC
        self.evaluations = 0
        self.nontrivial: set = set()
        self.rule = ""
        self.samples: list = []
        self.violations: dict[str, dict] = {}
        self.drift: list[str] = []
        self.notes: list[str] = []
        self.tlc_runs: list[dict] = []
        self.unexercised: list[str] = []
        self.exhaustive = False
        self.assumptions: list[str] = []
        self.trusted: list[str] = []
        self.extra: dict = {}
        self.quick = tier == "quick"
        import shutil
        shutil.rmtree(OUT / "replay" / prop, ignore_errors=True)   # replay files always belong to the latest run

    # ---- accounting ------------------------------------------------------------------
    def add_tlc(self, r, what: str = "") -> None:
        rs = r if isinstance(r, list) else [r]
        for x in rs:
            self.states += x.distinct
            self.transitions += x.generated
            for a, n in x.coverage.items():
                if n == 0 and a not in self.unexercised:
                    self.unexercised.append(a)
        self.tlc_runs.append({"what": what or rs[0].module, "module": rs[0].module, "shards": len(rs),
                              "states": sum(x.distinct for x in rs),
                              "generated": sum(x.generated for x in rs),
                              "wall_s": round(max(x.wall_s for x in rs), 2)})

    def add_states(self, states: int, generated: int, what: str, wall: float = 0.0) -> None:
        self.states += states
        self.transitions += generated
        self.tlc_runs.append({"what": what, "states": states, "generated": generated, "wall_s": round(wall, 2)})

    def sample(self, obj, limit: int = 6) -> None:
        if len(self.samples) < limit:
            self.samples.append(obj)

    def note(self, s: str) -> None:
        self.notes.append(s)
        print(f"NOTE: {s}", flush=True)

    def drift_note(self, s: str) -> None:
        if len(self.drift) < 50:
            self.drift.append(s)
        print(f"DRIFT: {s}", flush=True)

    # ---- violations ------------------------------------------------------------------
    def violation(self, key: str, what: str, payload: dict) -> None:
        """key identifies the failing input class (used for known-findings matching)."""
        if key in self.violations:
            self.violations[key]["count"] += 1
            return
        d = OUT / "replay" / self.prop
        d.mkdir(parents=True, exist_ok=True)
        path = d / (safe_name(key) + ".json")
        with open(path, "w") as fh:
            json.dump({"property": self.prop, "key": key, "what": what, **payload}, fh, indent=1, default=str)
        self.violations[key] = {"what": what, "replay": str(path), "count": 1}

    # ---- finish ----------------------------------------------------------------------
    def finish(self) -> int:
        kf_path = VERIF / "known_findings.json"
        known = {}
        if kf_path.exists():
            for e in json.load(open(kf_path)):
                if e.get("property") == self.prop and e.get("status") == "known":
                    known[e["key"]] = e
        unlisted = 0
        listed = 0
        for key, v in sorted(self.violations.items()):
            if key in known:
                listed += 1
                print(f"KNOWN-FINDING: property={self.prop} {key}: {v['what']}", flush=True)
            else:
                unlisted += 1
                print(f"VIOLATION property={self.prop} replay={v['replay']}", flush=True)
                print(f"  key={key} what={v['what']}", flush=True)
        if not self.samples:
            self.samples.append({"note": "no sample recorded"})
        cov = {
            "states": self.states,
            "transitions": self.transitions,
            "traces_validated_against_impl": self.traces,
            "samples": self.samples,
            "evaluations": self.evaluations,
            "distinct_nontrivial": len(self.nontrivial) if isinstance(self.nontrivial, set) else int(self.nontrivial),
            "rule": self.rule,
            "exhaustive": self.exhaustive,
            "trusted_base": self.trusted,
            "tlc_runs": self.tlc_runs,
            "unexercised_actions": self.unexercised,
            "drift_diagnostics": self.drift,
            "known_findings_reported": listed,
            "notes": self.notes,
        }
        cov.update(self.extra)
        ev = {
            "property_id": self.prop,
            "tier": self.tier,
            "seed": self.seed,
            "level": "model_checking",
            "coverage": cov,
            "assumptions": self.assumptions,
            "wall_s": round(time.time() - self.t0, 2),
            "violations": unlisted,
        }
        EVIDENCE.mkdir(parents=True, exist_ok=True)
        with open(EVIDENCE / f"{self.prop}.json", "w") as fh:
            json.dump(ev, fh, indent=1, default=str)
        print(f"{self.prop} tier={self.tier} states={self.states} transitions={self.transitions} "
              f"traces={self.traces} evaluations={self.evaluations} nontrivial={cov['distinct_nontrivial']} "
              f"violations={unlisted} known={listed} wall={ev['wall_s']}s", flush=True)
        return 1 if unlisted else 0


def die_machinery(msg: str) -> "None":
    print(f"MACHINERY-FAILURE: {msg}", file=sys.stderr, flush=True)
    sys.exit(2)
