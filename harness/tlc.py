"""TLC runner: invokes java tlc2.TLC directly (serial GC, fixed heap), parses statistics and
PrintT output, supports process-level sharding.  Nothing here decides a property."""
from __future__ import annotations

import json
import os
import re
import shutil
import subprocess
import time
from concurrent.futures import ThreadPoolExecutor
from dataclasses import dataclass, field
from pathlib import Path

VERIF = Path(__file__).resolve().parent.parent
SPEC = VERIF / "spec"
OUT = Path(os.environ["VERIF_OUT"]) if os.environ.get("VERIF_OUT") else VERIF / "out"
JARS = "/opt/veriftools/tla/tla2tools.jar:/opt/veriftools/tla/CommunityModules-deps.jar"


class TLCFailure(Exception):
    """machinery failure (exit status 2)"""


@dataclass
class TLCResult:
    module: str
    cfg: str
    cmd: str
    stdout: str
    generated: int = 0
    distinct: int = 0
    depth: int = 0
    ok: bool = False            # "Model checking completed. No error has been found." / simulation end
    violated: str | None = None  # name of a violated invariant / property, if any
    printed: list = field(default_factory=list)  # decoded PrintT(ToJson(..)) values
    wall_s: float = 0.0
    coverage: dict = field(default_factory=dict)  # action -> count when -coverage was on


_STAT = re.compile(r"(\d+) states generated, (\d+) distinct states found")
_DEPTH = re.compile(r"The depth of the complete state graph search is (\d+)")
_VIOL = re.compile(r"Error: Invariant (\S+) is violated|Error: Action property (\S+) is violated|"
                   r"Error: Temporal properties were violated")
_COV = re.compile(r"^<(\w+) line \d+, col \d+ to line \d+, col \d+ of module (\w+)>: (\d+):(\d+)", re.M)


def _decode_printed(stdout: str) -> list:
    out = []
    for line in stdout.splitlines():
        if line.startswith('"') and line.endswith('"'):
            try:
                s = json.loads(line)
            except Exception:
                continue
            if isinstance(s, str) and s[:1] in "{[":
                try:
                    out.append(json.loads(s))
                except Exception:
                    pass
    return out


def run(module: str, cfg_text: str, *, tag: str, env: dict | None = None, heap: str = "1g",
        workers: int = 1, extra: list[str] | None = None, timeout: int = 3600,
        allow_violation: bool = False, spec_dir: Path = SPEC) -> TLCResult:
    """Run TLC on spec/<module>.tla with the given cfg text.  `tag` names the scratch directory."""
    work = OUT / "tlc" / tag
    if work.exists():
        shutil.rmtree(work)
    work.mkdir(parents=True)
    cfg = work / f"{module}.cfg"
    cfg.write_text(cfg_text)
    cmd = ["java", "-XX:+UseSerialGC", "-Xms256m", f"-Xmx{heap}", "-Xss128m", "-XX:CICompilerCount=2",
           "-XX:-UsePerfData",
           f"-DTLA-Library={spec_dir}", "-cp", JARS,
           "tlc2.TLC", "-workers", str(workers), "-metadir", str(work / "meta"), "-noGenerateSpecTE",
           "-config", str(cfg)] + (extra or []) + [str(spec_dir / f"{module}.tla")]
    e = dict(os.environ)
    e.pop("JAVA_TOOL_OPTIONS", None)
    if env:
        e.update({k: str(v) for k, v in env.items()})
    t0 = time.time()
    try:
        p = subprocess.run(cmd, cwd=work, env=e, capture_output=True, text=True, timeout=timeout)
    except subprocess.TimeoutExpired as ex:
        raise TLCFailure(f"TLC timeout after {timeout}s: {module} [{tag}]") from ex
    wall = time.time() - t0
    so = p.stdout
    (work / "stdout.txt").write_text(so + "\n--- stderr ---\n" + p.stderr)
    r = TLCResult(module=module, cfg=cfg_text, cmd=" ".join(cmd), stdout=so, wall_s=wall)
    m = None
    for m in _STAT.finditer(so):
        pass
    if m:
        r.generated, r.distinct = int(m.group(1)), int(m.group(2))
    d = _DEPTH.search(so)
    if d:
        r.depth = int(d.group(1))
    v = _VIOL.search(so)
    if v:
        r.violated = v.group(1) or v.group(2) or "temporal"
    r.ok = ("No error has been found" in so) and r.violated is None
    r.printed = _decode_printed(so)
    for cm in _COV.finditer(so):
        r.coverage[cm.group(1)] = r.coverage.get(cm.group(1), 0) + int(cm.group(3))
    shutil.rmtree(work / "meta", ignore_errors=True)
    if not r.ok and not (allow_violation and r.violated):
        tail = "\n".join(so.splitlines()[-40:])
        raise TLCFailure(f"TLC did not complete cleanly: {module} [{tag}]\n{tail}\n{p.stderr[-2000:]}")
    return r


def run_sharded(module: str, cfg_text: str, *, tag: str, nshards: int, env: dict | None = None,
                shard_env: list[dict] | None = None, **kw) -> list[TLCResult]:
    """N single-worker JVMs, each told SHARD / NSHARDS through the environment."""
    def one(i: int) -> TLCResult:
        e = dict(env or {})
        e.update({"SHARD": i, "NSHARDS": nshards})
        if shard_env:
            e.update(shard_env[i])
        return run(module, cfg_text, tag=f"{tag}.s{i}", env=e, **kw)
    with ThreadPoolExecutor(max_workers=min(nshards, os.cpu_count() or 4)) as ex:
        return list(ex.map(one, range(nshards)))


def _clean(x):
    """JSON null is not a TLA+ value: drop None-valued keys, recursively"""
    if isinstance(x, dict):
        return {k: _clean(v) for k, v in x.items() if v is not None}
    if isinstance(x, (list, tuple)):
        return [_clean(v) for v in x]
    return x


def judge_traces(module: str, records: list[dict], *, tag: str, nshards: int = 8, cfg_extra: str = "",
                 env: dict | None = None, heap: str = "1g", timeout: int = 3600) -> tuple[list[dict], int, int]:
    """Pipeline B: write records as ndjson shards, let the trace instance `module` judge each one.

    The trace module must define Init/Next walking i = 0..Len(Trace) and an invariant `Judge` that
    PrintT's a JSON object {"id":..,"clause":..} for every rejected record.  Acceptance of the
    *run* is checked here structurally: every shard must have visited Len(shard)+1 distinct states,
    i.e. every record was judged.  Returns (rejections, states, generated)."""
    work = OUT / "traces" / tag
    if work.exists():
        shutil.rmtree(work)
    work.mkdir(parents=True)
    nshards = max(1, min(nshards, len(records)))
    shards = [records[i::nshards] for i in range(nshards)]
    senv = []
    for i, sh in enumerate(shards):
        f = work / f"trace.{i}.ndjson"
        with open(f, "w") as fh:
            for r in sh:
                fh.write(json.dumps(_clean(r), separators=(",", ":")) + "\n")
        senv.append({"TRACE_FILE": str(f)})
    cfg = "INIT Init\nNEXT Next\nINVARIANT Judge\nCHECK_DEADLOCK FALSE\n" + cfg_extra
    res = run_sharded(module, cfg, tag=tag, nshards=nshards, env=env, shard_env=senv, heap=heap,
                      timeout=timeout)
    rejects: list[dict] = []
    states = gen = 0
    for sh, r in zip(shards, res):
        if r.distinct != len(sh) + 1:
            raise TLCFailure(f"trace judge {module} [{tag}] visited {r.distinct} states for {len(sh)} records")
        states += r.distinct
        gen += r.generated
        rejects += [x for x in r.printed if isinstance(x, dict) and "clause" in x]
    return rejects, states, gen


def sany(module_path: Path) -> bool:
    p = subprocess.run(["java", "-cp", JARS, f"-DTLA-Library={SPEC}", "tla2sany.SANY", str(module_path)],
                       capture_output=True, text=True, cwd=module_path.parent)
    return p.returncode == 0 and "Semantic errors" not in p.stdout and "*** Errors" not in p.stdout \
        and "Parse Error" not in p.stdout
