"""Writers used by the harness to observe Program output (public Writer protocol)."""


class StubWriter:
    def __init__(self) -> None:
        self.calls: list[tuple[int, bytes]] = []

    def begin(self) -> None:
        pass

    def write_block_header(self, block: bytes, block_address: int) -> None:
        return None

    def write_block(self, block: bytes, block_address: int) -> None:
        self.calls.append((block_address, bytes(block)))

    def end(self) -> None:
        pass
