"""Design-level exploration of the character-level scanner model (shared by C15 and C17)."""
from harness import tlc

CFG = "INIT Init\nNEXT Next\nCHECK_DEADLOCK FALSE\nINVARIANT Good\n"


def design(ctx, n: int, families=("comments", "operands", "misc")) -> None:
    for fam in families:
        rs = tlc.run_sharded("MC_Scanner", CFG, tag=f"{ctx.prop.lower()}.scanner.{fam}", nshards=8, heap="2g",
                             env={"MAXLEN": n, "FAMILY": fam, "CHECKEOF": 1, "OLDSIZE": 0}, timeout=7200)
        ctx.add_tlc(rs, f"MC_Scanner family={fam}: all inputs <= {n} characters, NoSpin + PositionLaw")


def refute_pinned_comment_loop(ctx) -> None:
    m = tlc.run("MC_Scanner", CFG, tag=f"{ctx.prop.lower()}.scanner.mutant", allow_violation=True,
                env={"MAXLEN": 3, "FAMILY": "comments", "CHECKEOF": 0, "OLDSIZE": 0, "SHARD": 0, "NSHARDS": 1})
    if m.violated != "Good":
        raise tlc.TLCFailure("spec mutant CHECKEOF=0 (pinned comment loop) was not refuted by MC_Scanner")
    ctx.note("spec mutant CHECKEOF=0 (pinned block-comment loop) refuted by TLC on the scanner model, as required")


def refute_old_size_error(ctx) -> None:
    """spec mutant: the design in which a missing size specifier consumes the line end (before the fix)"""
    m = tlc.run("MC_Scanner", CFG, tag=f"{ctx.prop.lower()}.scanner.mutant2", allow_violation=True, workers=8,
                env={"MAXLEN": 5, "FAMILY": "operands", "CHECKEOF": 1, "OLDSIZE": 1, "SHARD": 0, "NSHARDS": 1})
    if m.violated != "Good":
        raise tlc.TLCFailure("spec mutant OLDSIZE=1 (size error consumes the newline) was not refuted by MC_Scanner")
    ctx.note("spec mutant OLDSIZE=1 (missing size specifier reported on the next line) refuted by TLC on the scanner model, as required")
