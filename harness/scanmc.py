"""Design-level exploration of the character-level scanner model (shared by C15 and C17)."""
from harness import tlc

CFG = "INIT Init\nNEXT Next\nCHECK_DEADLOCK FALSE\nINVARIANT Good\n"


def design(ctx, n: int, families=("comments", "operands", "misc")) -> None:
    for fam in families:
        rs = tlc.run_sharded("MC_Scanner", CFG, tag=f"{ctx.prop.lower()}.scanner.{fam}", nshards=8, heap="2g",
                             env={"MAXLEN": n, "FAMILY": fam, "CHECKEOF": 1}, timeout=7200)
        ctx.add_tlc(rs, f"MC_Scanner family={fam}: all inputs <= {n} characters, NoSpin + PositionLaw")


def refute_pinned_comment_loop(ctx) -> None:
    m = tlc.run("MC_Scanner", CFG, tag=f"{ctx.prop.lower()}.scanner.mutant", allow_violation=True,
                env={"MAXLEN": 3, "FAMILY": "comments", "CHECKEOF": 0, "SHARD": 0, "NSHARDS": 1})
    if m.violated != "Good":
        raise tlc.TLCFailure("spec mutant CHECKEOF=0 (pinned comment loop) was not refuted by MC_Scanner")
    ctx.note("spec mutant CHECKEOF=0 (pinned block-comment loop) refuted by TLC on the scanner model, as required")
