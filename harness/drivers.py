"""Driver functions executed inside pool workers against the real a816 code (imported from the
repository working tree).  They only *observe*: run the code, record what it returned."""
from __future__ import annotations

import io
import logging
import os
import sys
import warnings
from pathlib import Path

REPO = os.environ.get("VERIF_REPO", "/repo")
if REPO not in sys.path:
    sys.path.insert(0, REPO)

warnings.simplefilter("ignore")
logging.disable(logging.CRITICAL)


# ------------------------------------------------------------------------------------------
# bus observation (C04, C20)
# ------------------------------------------------------------------------------------------
def map_directive(d: dict) -> str:
    s = (f".map identifier={d['id']} bank_range=0x{d['b0']:02x}, 0x{d['b1']:02x} "
         f"addr_range=0x{d['lo']:04x}, 0x{d['hi']:04x} mask=0x{d['mask']:x}")
    if d.get("m0", -1) != -1:
        s += f" mirror_bank_range=0x{d['m0']:02x}, 0x{d['m1']:02x}"
    if d.get("ram"):
        s += " writable=1"
    return s


def get_bus(spec):
    """spec: 'low' | 'high' | {'decls': [...], 'via': 'source'|'api'}"""
    from a816.symbols import high_rom_bus, low_rom_bus
    if spec == "low":
        return low_rom_bus
    if spec == "high":
        return high_rom_bus
    decls = spec["decls"]
    if spec.get("via", "source") == "api":
        from a816.cpu.mapping import Bus
        bus = Bus("verif")
        for d in decls:
            bus.map(str(d["id"]), (d["b0"], d["b1"]), (d["lo"], d["hi"]), d["mask"], writeable=bool(d["ram"]),
                    mirror_bank_range=None if d.get("m0", -1) == -1 else (d["m0"], d["m1"]))
        return bus
    from a816.program import Program
    from harness.stub import StubWriter
    src = "\n".join(map_directive(d) for d in decls) + "\n"
    p = Program()
    err = p.assemble_string_with_emitter(src, "map.s", StubWriter())
    if err is not None:
        raise RuntimeError(f"map program rejected: {err}")
    return p.resolver.get_bus()


def _phys(bus, a):
    """-> ('rom', offset) | ('ram', None) | ('none', None)"""
    try:
        p = bus.get_address(a).physical
    except Exception:
        return ("none", None)
    if p is None:
        return ("ram", None)
    return ("rom", p)


def bus_bank_segments(arg: dict) -> list[dict]:
    """Evaluate get_address(a).physical for every a of one bank (or the listed offsets) and
    return the function as maximal affine runs (lossless run-length encoding)."""
    bus = get_bus(arg["bus"])
    bank = arg["bank"]
    base = bank << 16
    segs: list[dict] = []
    cur = None
    for o in range(0x10000):
        a = base + o
        cls, p = _phys(bus, a)
        if cur is not None and cur["cls"] == cls and (cls != "rom" or p == cur["phys"] + (a - cur["start"])):
            cur["end"] = a
        else:
            cur = {"t": "seg", "start": a, "end": a, "cls": cls, "phys": p if p is not None else -1}
            segs.append(cur)
    return segs


def bus_bank_advance(arg: dict) -> list[dict]:
    """(get_address(a) + n).logical_value for every a of one bank, as affine runs; -1 = exception."""
    bus = get_bus(arg["bus"])
    bank = arg["bank"]
    n = arg["n"]
    base = bank << 16
    segs: list[dict] = []
    cur = None
    for o in range(0x10000):
        a = base + o
        try:
            r = (bus.get_address(a) + n).logical_value
        except Exception:
            r = -1
        if cur is not None and ((r == -1 and cur["res"] == -1) or
                                (r != -1 and cur["res"] != -1 and r == cur["res"] + (a - cur["start"]))):
            cur["end"] = a
        else:
            cur = {"t": "advseg", "start": a, "end": a, "n": n, "res": r}
            segs.append(cur)
    return segs


def bus_advance_points(arg: dict) -> list[dict]:
    bus = get_bus(arg["bus"])
    out = []
    for a, n in arg["points"]:
        try:
            r = (bus.get_address(a) + n).logical_value
        except Exception:
            r = -1
        out.append({"t": "adv", "a": a, "n": n, "res": r})
    return out


def bus_advance_chain(arg: dict) -> list[dict]:
    """advance by m then by n, recorded as an advance of the intermediate address"""
    bus = get_bus(arg["bus"])
    out = []
    for a, m, n in arg["points"]:
        try:
            mid = (bus.get_address(a) + m)
            r = (mid + n).logical_value
            out.append({"t": "adv", "a": a, "n": m + n, "res": r, "via": [m, n]})
        except Exception:
            pass
    return out


def bus_point_segments(arg: dict) -> list[dict]:
    bus = get_bus(arg["bus"])
    out = []
    for a in arg["addrs"]:
        cls, p = _phys(bus, a)
        out.append({"t": "seg", "start": a, "end": a, "cls": cls, "phys": p if p is not None else -1})
    return out


def program_physical(arg: dict) -> list[dict]:
    """Program.get_physical_address under a rom type / custom bus"""
    from a816.cpu.cpu_65c816 import RomType
    from a816.program import Program
    p = Program()
    if arg["bus"] == "high":
        p.resolver.rom_type = RomType.high_rom
    out = []
    for a in arg["addrs"]:
        try:
            r = p.get_physical_address(a)
            out.append({"t": "seg", "start": a, "end": a, "cls": "rom", "phys": r})
        except KeyError:
            out.append({"t": "seg", "start": a, "end": a, "cls": "none", "phys": -1})
        except RuntimeError:
            out.append({"t": "seg", "start": a, "end": a, "cls": "ram", "phys": -1})
    return out


# ------------------------------------------------------------------------------------------
# legacy conversions (C20)
# ------------------------------------------------------------------------------------------
def legacy_runs(arg: dict) -> list[dict]:
    """rom_to_snes over a range of offsets, as affine runs, plus snes_to_rom of each result."""
    from a816.cpu.cpu_65c816 import RomType, rom_to_snes, snes_to_rom
    mode = {"low": RomType.low_rom, "low2": RomType.low_rom_2, "high": RomType.high_rom}[arg["mode"]]
    segs = []
    cur = None
    for o in range(arg["start"], arg["end"] + 1):
        a = rom_to_snes(o, mode)
        back = snes_to_rom(a)
        d = back - o
        if cur is not None and a == cur["snes"] + (o - cur["start"]) and d == cur["back_delta"]:
            cur["end"] = o
        else:
            cur = {"t": "r2s", "mode": arg["mode"], "start": o, "end": o, "snes": a, "back_delta": d}
            segs.append(cur)
    return segs


def legacy_pointers(arg: dict) -> list[dict]:
    from script.formulas import base_relative_16bits_pointer_formula, long_low_rom_pointer
    out = []
    for base, p in arg["pairs"]:
        try:
            b = list(long_low_rom_pointer(base)(p))
        except Exception:
            b = [-1]
        out.append({"t": "llp", "base": base, "p": p, "bytes": b})
    for base, lo, hi in arg["rel"]:
        v = base_relative_16bits_pointer_formula(base)(bytes([lo, hi]))
        out.append({"t": "rel", "base": base, "lo": lo, "hi": hi, "val": v})
    return out


# ------------------------------------------------------------------------------------------
# generic assembly observation
# ------------------------------------------------------------------------------------------
_TMP = None


def _workdir() -> str:
    global _TMP
    if _TMP is None:
        import atexit
        import shutil
        import tempfile
        base = os.path.join(os.path.dirname(os.path.dirname(os.path.abspath(__file__))), "out", "work")
        os.makedirs(base, exist_ok=True)
        _TMP = tempfile.mkdtemp(prefix="w", dir=base)
        atexit.register(shutil.rmtree, _TMP, True)
    return _TMP


def write_files(files: dict | None) -> None:
    """files: name -> {"text": str} | {"bytes": [ints]}; written into this worker's scratch cwd"""
    wd = _workdir()
    os.chdir(wd)
    for name, c in (files or {}).items():
        d = os.path.dirname(name)
        if d:
            os.makedirs(d, exist_ok=True)
        if "text" in c:
            with open(name, "w", encoding="utf-8") as fh:
                fh.write(c["text"])
        else:
            with open(name, "wb") as fh:
                fh.write(bytes(c["bytes"]))


def assemble(arg: dict) -> dict:
    """Assemble arg['src'] in memory with a recording writer.
    -> {"ok", "err", "exc", "calls": [[addr, [byte..]]..], "labels": [[name, value]..]}"""
    from a816.cpu.cpu_65c816 import RomType
    from a816.program import Program
    from harness.stub import StubWriter
    write_files(arg.get("files"))
    p = Program()
    if arg.get("rom") == "high":
        p.resolver.rom_type = RomType.high_rom
    for k, v in (arg.get("defines") or {}).items():
        p.resolver.current_scope.add_symbol(k, v)
    w = StubWriter()
    out = {"ok": False, "err": None, "exc": None, "calls": [], "labels": []}
    try:
        err = p.assemble_string_with_emitter(arg["src"], arg.get("filename", "memory.s"), w)
        if err is None:
            out["ok"] = True
        else:
            out["err"] = str(err)
    except RecursionError:
        out["exc"] = "RecursionError"
        out["err"] = "RecursionError"
    except BaseException as e:  # noqa: BLE001 - every failure is an observation
        out["exc"] = type(e).__name__
        try:
            out["err"] = str(e)
        except Exception:
            out["err"] = repr(e)
    if out["ok"]:
        out["calls"] = [[a, list(b)] for a, b in w.calls]
        try:
            out["labels"] = [[n, v] for n, v in p.resolver.get_all_labels()]
        except Exception:
            out["labels"] = []
        if arg.get("want_symbols"):
            syms = {}
            for n in arg["want_symbols"]:
                try:
                    syms[n] = p.resolver.scopes[0].value_for(n)
                except Exception:
                    syms[n] = None
            out["symbols"] = syms
    return out


def assemble_many(arg: dict) -> list[dict]:
    """arg['items'] = list of assemble() arguments; used to batch tiny programs"""
    return [assemble(a) for a in arg["items"]]


# ------------------------------------------------------------------------------------------
# expressions (C06)
# ------------------------------------------------------------------------------------------
def to_wide(n: int) -> list[int]:
    n &= (1 << 48) - 1
    return [(n >> (12 * k)) & 0xFFF for k in range(4)]


def _bytes_of(o: dict, skip: int, n: int | None = None):
    bs = [b for _, blk in o["calls"] for b in blk]
    return bs[skip:] if n is None else bs[skip:skip + n]


def expr_contexts(arg: dict) -> list[dict]:
    """Evaluate one expression text in each requested context.
    arg: {"text", "env": {name: int}, "ctxs": [..]} -> [{"ctx", "ok", "val"|"bytes", "err"}]"""
    from a816.parse.ast.expression import eval_expression_str
    from a816.symbols import Resolver
    text = arg["text"]
    pre = "".join(f"{k} := {v}\n" for k, v in arg["env"].items())
    out = []
    for ctx in arg["ctxs"]:
        if ctx == "eval":
            r = Resolver()
            for k, v in arg["env"].items():
                r.current_scope.add_symbol(k, v)
            try:
                v = eval_expression_str(text, r)
                if isinstance(v, int) and abs(v) < (1 << 46):
                    out.append({"ctx": ctx, "ok": True, "val": to_wide(v)})
                else:
                    out.append({"ctx": ctx, "ok": True, "val": [-1, -1, -1, -1], "big": str(v)})
            except BaseException as e:  # noqa: BLE001
                out.append({"ctx": ctx, "ok": False, "val": [0, 0, 0, 0], "err": f"{type(e).__name__}: {e}"})
            continue
        skip = 0
        if ctx == "imm16":
            body, skip = f"lda.w #{text}\n", 1
        elif ctx == "long24":
            body, skip = f"lda.l {text}\n", 1
        elif ctx in ("dl", "dw", "db", "pointer"):
            body = f".{ctx} {text}\n"
        elif ctx == "sym":
            body = f"val = {text}\n.dl val\n"
        elif ctx == "assign":
            body = f"val := {text}\n.dl val\n"
        elif ctx == "macro":
            body = f".macro mm(p) {{\n.dl p\n}}\nmm({text})\n"
        elif ctx == "if":
            body = f".if {text} {{\n.db 1\n}} else {{\n.db 0\n}}\n"
        elif ctx == "for":
            body = f".for k := 0, {text} {{\n.db k\n}}\n"
        else:
            raise ValueError(ctx)
        o = assemble({"src": pre + "*=0x008000\n" + body})
        out.append({"ctx": ctx, "ok": bool(o["ok"]), "bytes": _bytes_of(o, skip) if o["ok"] else [], "err": o["err"]})
    return out


# ------------------------------------------------------------------------------------------
# IPS writer (C11)
# ------------------------------------------------------------------------------------------
def pattern(w: dict) -> bytes:
    return bytes((w["seed"] + j * w["step"]) % 256 for j in range(w["len"]))


def ips_write(arg: dict) -> dict:
    """Feed a history of writes to the real IPSWriter; log the produced file as bytes."""
    from a816.writers import IPSWriter
    f = io.BytesIO()
    w = IPSWriter(f, arg["header"])
    refused_at = 0
    err = None
    w.begin()
    for k, wr in enumerate(arg["writes"], 1):
        try:
            w.write_block(pattern(wr), wr["addr"])
        except BaseException as e:  # noqa: BLE001
            refused_at = k
            err = f"{type(e).__name__}: {e}"
            break
    if not refused_at:
        w.end()
    return {"refused_at": refused_at, "err": err, "file": list(f.getvalue()) if not refused_at else []}


# ------------------------------------------------------------------------------------------
# .include_ips (C13)
# ------------------------------------------------------------------------------------------
def _ips_program(placement: str, directive: str) -> str:
    d = {p: "" for p in ("first", "between", "block", "after", "reloc_rom", "reloc_ram", "macro")}
    d[placement] = directive + "\n"
    if placement in ("reloc_rom", "reloc_ram"):
        # the directive sits in the middle of a block that is assembled to run elsewhere (@=)
        target = "0x028000" if placement == "reloc_rom" else "0x7e2000"
        return ("*=0x008000\nstart:\n.db 7\n@=" + target + "\nrun:\n.db 1, 2\n" + d[placement] +
                "mid:\n.db 3\n.dl run, mid\n*=0x018000\ntail:\n.db 4\n.dl start, tail\n")
    if placement == "macro":
        return ("*=0x008000\n.macro patch() {\n.db 5\n" + d["macro"] + ".db 6\n}\nstart:\n.db 1\npatch()\nmid:\n.db 3\n"
                ".dl start, mid\n")
    return ("*=0x008000\n" + d["first"] + "start:\n.db 1, 2\n" + d["between"] + "mid:\n.db 3\n{\n.db 9\n" + d["block"] +
            "inner:\n.dw inner\n}\n*=0x018000\n" + d["after"] + "tail:\n.db 4\n.dl start, mid, tail\n")


def include_ips_case(arg: dict) -> dict:
    files = {"p.ips": {"bytes": arg["file"]}}
    delta = arg["delta"]
    dtxt = f"-0x{-delta:x}" if delta < 0 else f"0x{delta:x}"
    directive = f".include_ips 'p.ips', {dtxt}"
    base = assemble({"src": _ips_program(arg["placement"], ""), "files": files})
    with_ = assemble({"src": _ips_program(arg["placement"], directive), "files": files})
    pick = lambda o: {"ok": o["ok"], "calls": o["calls"], "labels": o["labels"], "err": o["err"]}  # noqa: E731
    return {"base": pick(base), "with": pick(with_)}


# ------------------------------------------------------------------------------------------
# tables (C18)
# ------------------------------------------------------------------------------------------
def render_table(entries: list[dict]) -> str:
    return "".join("".join(f"{b:02X}" for b in e["code"]) + "=" + "".join(e["text"]) + "\n" for e in entries)


def render_symbols(s: list[dict]) -> str:
    return "".join(x["v"] if x["k"] == "c" else f"[0x{x['v']:02X}]" for x in s)


def table_codec(arg: dict) -> list[dict]:
    """Load a generated table through the real Table class; run every string through the codec."""
    from script import Table
    write_files({"t.tbl": {"text": render_table(arg["table"])}})
    t = Table("t.tbl")
    out = []
    for s in arg["strings"]:
        text = render_symbols(s)
        try:
            b = t.to_bytes(text)
            back = t.to_text(b)
            out.append({"bytes": list(b), "back": list(back)})
        except BaseException as e:  # noqa: BLE001
            out.append({"bytes": [-1], "back": [], "err": f"{type(e).__name__}: {e}"})
    return out


def table_program(arg: dict) -> dict:
    files = {f"t{k + 1}.tbl": {"text": render_table(t)} for k, t in enumerate(arg["tables"])}
    lines = [f"*=0x{arg['org']:06x}"]
    nscope = 0
    for it in arg["items"]:
        if it["k"] == "open":
            nscope += 1
            lines.append("{" if arg.get("scope_style", "block") == "block" or nscope % 2 else f".scope ns{nscope} {{")
        elif it["k"] == "close":
            lines.append("}")
        elif it["k"] == "table":
            lines.append(f".table 't{it['t']}.tbl'")
        else:
            lines.append(f".text '{render_symbols(it['s'])}'")
    lines.append("endlabel:")
    src = "\n".join(lines) + "\n"
    o = assemble({"src": src, "files": files})
    end = dict((n, v) for n, v in o["labels"]).get("endlabel", -1)
    return {"ok": o["ok"], "bytes": [b for _, blk in o["calls"] for b in blk], "endlabel": end, "err": o["err"], "src": src}


# ------------------------------------------------------------------------------------------
# abstract programs (C02, C03, C05, C07, C08, C09, C10)
# ------------------------------------------------------------------------------------------
def asm_prog(arg: dict) -> dict:
    """Render an APR program, assemble it, return the observable result."""
    from harness import apr
    src, files = apr.render(arg["prog"])
    o = assemble({"src": src, "files": files, "rom": arg["prog"].get("rom", "low"),
                  "defines": {d["n"]: d["v"] for d in arg["prog"].get("defines", [])}})
    return {"ok": o["ok"], "calls": o["calls"], "labels": sorted(o["labels"]), "err": o["err"], "exc": o["exc"], "src": src}
