"""Driver functions executed inside pool workers against the real a816 code (imported from the
repository working tree).  They only *observe*: run the code, record what it returned."""
from __future__ import annotations

import io
import logging
import os
import sys
import warnings
from pathlib import Path

REPO = os.environ.get("VERIF_REPO", "/repo")
if REPO not in sys.path:
    sys.path.insert(0, REPO)

warnings.simplefilter("ignore")
logging.disable(logging.CRITICAL)


# ------------------------------------------------------------------------------------------
# bus observation (C04, C20)
# ------------------------------------------------------------------------------------------
def map_directive(d: dict) -> str:
    s = (f".map identifier={d['id']} bank_range=0x{d['b0']:02x}, 0x{d['b1']:02x} "
         f"addr_range=0x{d['lo']:04x}, 0x{d['hi']:04x} mask=0x{d['mask']:x}")
    if d.get("m0", -1) != -1:
        s += f" mirror_bank_range=0x{d['m0']:02x}, 0x{d['m1']:02x}"
    if d.get("ram"):
        s += " writable=1"
    return s


def get_bus(spec):
    """spec: 'low' | 'high' | {'decls': [...], 'via': 'source'|'api'}"""
    from a816.symbols import high_rom_bus, low_rom_bus
    if spec == "low":
        return low_rom_bus
    if spec == "high":
        return high_rom_bus
    decls = spec["decls"]
    if spec.get("via", "source") in ("api", "api_interleaved"):
        from a816.cpu.mapping import Bus
        bus = Bus("verif")
        for d in decls:
            bus.map(str(d["id"]), (d["b0"], d["b1"]), (d["lo"], d["hi"]), d["mask"], writeable=bool(d["ram"]),
                    mirror_bank_range=None if d.get("m0", -1) == -1 else (d["m0"], d["m1"]))
            if spec["via"] == "api_interleaved":
                # use the bus between declarations: a later declaration must still take effect
                for bank in range(256):
                    try:
                        _ = bus.get_address(bank << 16 | d["lo"]).physical
                    except Exception:
                        pass
        return bus
    from a816.program import Program
    from harness.stub import StubWriter
    src = "\n".join(map_directive(d) for d in decls) + "\n"
    p = Program()
    err = p.assemble_string_with_emitter(src, "map.s", StubWriter())
    if err is not None:
        raise RuntimeError(f"map program rejected: {err}")
    return p.resolver.get_bus()


def _phys(bus, a):
    """-> ('rom', offset) | ('ram', None) | ('none', None)"""
    try:
        p = bus.get_address(a).physical
    except Exception:
        return ("none", None)
    if p is None:
        return ("ram", None)
    return ("rom", p)


def bus_bank_segments(arg: dict) -> list[dict]:
    """Evaluate get_address(a).physical for every a of one bank (or the listed offsets) and
    return the function as maximal affine runs (lossless run-length encoding)."""
    bus = get_bus(arg["bus"])
    bank = arg["bank"]
    base = bank << 16
    segs: list[dict] = []
    cur = None
    for o in range(0x10000):
        a = base + o
        cls, p = _phys(bus, a)
        if cur is not None and cur["cls"] == cls and (cls != "rom" or p == cur["phys"] + (a - cur["start"])):
            cur["end"] = a
        else:
            cur = {"t": "seg", "start": a, "end": a, "cls": cls, "phys": p if p is not None else -1}
            segs.append(cur)
    return segs


def bus_bank_advance(arg: dict) -> list[dict]:
    """(get_address(a) + n).logical_value for every a of one bank, as affine runs; -1 = exception."""
    bus = get_bus(arg["bus"])
    bank = arg["bank"]
    n = arg["n"]
    base = bank << 16
    segs: list[dict] = []
    cur = None
    for o in range(0x10000):
        a = base + o
        try:
            r = (bus.get_address(a) + n).logical_value
        except Exception:
            r = -1
        if cur is not None and ((r == -1 and cur["res"] == -1) or
                                (r != -1 and cur["res"] != -1 and r == cur["res"] + (a - cur["start"]))):
            cur["end"] = a
        else:
            cur = {"t": "advseg", "start": a, "end": a, "n": n, "res": r}
            segs.append(cur)
    return segs


def bus_advance_points(arg: dict) -> list[dict]:
    bus, failed = _bus_or_failure(arg["bus"])
    if failed:
        return failed
    out = []
    for a, n in arg["points"]:
        rcls, rphys = "none", -1
        try:
            obj = bus.get_address(a) + n
            r = obj.logical_value
            ph = obj.physical
            rcls, rphys = ("ram", -1) if ph is None else ("rom", ph)
        except Exception:
            r = -1
        out.append({"t": "adv", "a": a, "n": n, "res": r, "rcls": rcls, "rphys": rphys})
    return out


def bus_advance_chain(arg: dict) -> list[dict]:
    """advance by m then by n, recorded as an advance of the intermediate address"""
    bus = get_bus(arg["bus"])
    out = []
    for a, m, n in arg["points"]:
        try:
            mid = (bus.get_address(a) + m)
            obj = mid + n
            ph = obj.physical
            out.append({"t": "adv", "a": a, "n": m + n, "res": obj.logical_value, "via": [m, n],
                        "rcls": "ram" if ph is None else "rom", "rphys": -1 if ph is None else ph})
        except Exception:
            pass
    return out


def _bus_or_failure(spec):
    """the bus for a declared configuration, or the observation that declaring it failed"""
    try:
        return get_bus(spec), None
    except BaseException as e:  # noqa: BLE001 - declaring a valid mapping must work: a failure is an observation
        return None, [{"t": "construct", "a": 0, "ok": False, "err": f"{type(e).__name__}: {e}"[:200]}]


def bus_point_segments(arg: dict) -> list[dict]:
    bus, failed = _bus_or_failure(arg["bus"])
    if failed:
        return failed
    out = []
    for a in arg["addrs"]:
        cls, p = _phys(bus, a)
        out.append({"t": "seg", "start": a, "end": a, "cls": cls, "phys": p if p is not None else -1})
    return out


def program_physical(arg: dict) -> list[dict]:
    """Program.get_physical_address under a rom type / custom bus"""
    from a816.cpu.cpu_65c816 import RomType
    from a816.program import Program
    p = Program()
    if arg["bus"] == "high":
        p.resolver.rom_type = RomType.high_rom
    out = []
    for a in arg["addrs"]:
        try:
            r = p.get_physical_address(a)
            out.append({"t": "seg", "start": a, "end": a, "cls": "rom", "phys": r})
        except KeyError:
            out.append({"t": "seg", "start": a, "end": a, "cls": "none", "phys": -1})
        except RuntimeError:
            out.append({"t": "seg", "start": a, "end": a, "cls": "ram", "phys": -1})
    return out


# ------------------------------------------------------------------------------------------
# legacy conversions (C20)
# ------------------------------------------------------------------------------------------
def legacy_runs(arg: dict) -> list[dict]:
    """rom_to_snes over a range of offsets, as affine runs, plus snes_to_rom of each result."""
    from a816.cpu.cpu_65c816 import RomType, rom_to_snes, snes_to_rom
    from a816.symbols import Resolver
    mode = {"low": RomType.low_rom, "low2": RomType.low_rom_2, "high": RomType.high_rom}[arg["mode"]]
    # the mapping the assembler uses in this mode: the file offset it gives the converted address
    # the other mapping modes are used in this process first (what a mode maps must not depend on it)
    for other in (RomType.low_rom, RomType.low_rom_2, RomType.high_rom):
        if other != mode:
            ro = Resolver()
            ro.rom_type = other
            bo = ro.get_bus()
            for bank in range(256):
                try:
                    bo.get_address((bank << 16) | 0x8000).physical
                except Exception:
                    pass
    rs = Resolver()
    rs.rom_type = mode
    bus = rs.get_bus()
    segs = []
    cur = None
    for o in range(arg["start"], arg["end"] + 1):
        try:
            a = rom_to_snes(o, mode)
        except Exception:   # the conversions are total on the 4 MiB space: an exception is an observation
            a = -(1 << 30)
        try:
            ph = bus.get_address(a).physical
            pd = (ph - o) if ph is not None else (1 << 29)        # None: not ROM for the bus
        except Exception:
            pd = 1 << 30                                            # unmapped for the bus
        try:
            back = snes_to_rom(a) if a >= 0 else -(1 << 30)
        except Exception:
            back = -(1 << 30)
        d = back - o if back >= 0 else 1
        if cur is not None and a == cur["snes"] + (o - cur["start"]) and d == cur["back_delta"] and pd == cur["phys_delta"]:
            cur["end"] = o
        else:
            cur = {"t": "r2s", "mode": arg["mode"], "start": o, "end": o, "snes": a, "back_delta": d, "phys_delta": pd}
            segs.append(cur)
    return segs


def legacy_pointers(arg: dict) -> list[dict]:
    from script.formulas import base_relative_16bits_pointer_formula, long_low_rom_pointer
    out = []
    for base, p in arg["pairs"]:
        try:
            b = list(long_low_rom_pointer(base)(p))
        except Exception:
            b = [-1]
        out.append({"t": "llp", "base": base, "p": p, "bytes": b})
    for base, lo, hi in arg["rel"]:
        v = base_relative_16bits_pointer_formula(base)(bytes([lo, hi]))
        out.append({"t": "rel", "base": base, "lo": lo, "hi": hi, "val": v})
    return out


# ------------------------------------------------------------------------------------------
# generic assembly observation
# ------------------------------------------------------------------------------------------
_TMP = None


def _workdir() -> str:
    global _TMP
    if _TMP is None:
        import atexit
        import shutil
        import tempfile
        base = os.path.join(os.environ.get("VERIF_OUT") or os.path.join(os.path.dirname(os.path.dirname(os.path.abspath(__file__))), "out"), "work")
        os.makedirs(base, exist_ok=True)
        _TMP = tempfile.mkdtemp(prefix="w", dir=base)
        atexit.register(shutil.rmtree, _TMP, True)
    return _TMP


def write_files(files: dict | None, chdir: bool = True) -> None:
    """files: name -> {"text": str} | {"bytes": [ints]}; written into this worker's scratch directory, which is made
    the working directory (chdir=False: the working directory is left as the code under observation left it)"""
    wd = _workdir()
    if chdir:
        os.chdir(wd)
    for name, c in (files or {}).items():
        name = os.path.join(wd, name)
        d = os.path.dirname(name)
        if d:
            os.makedirs(d, exist_ok=True)
        if "text" in c:
            with open(name, "w", encoding="utf-8") as fh:
                fh.write(c["text"])
        else:
            with open(name, "wb") as fh:
                fh.write(bytes(c["bytes"]))


def assemble(arg: dict) -> dict:
    """Assemble arg['src'] in memory with a recording writer.
    -> {"ok", "err", "exc", "calls": [[addr, [byte..]]..], "labels": [[name, value]..]}"""
    from a816.cpu.cpu_65c816 import RomType
    from a816.program import Program
    from harness.stub import StubWriter
    write_files(arg.get("files"), chdir=not arg.get("keep_cwd"))
    w = StubWriter()
    out = {"ok": False, "err": None, "exc": None, "calls": [], "labels": []}
    p = None
    try:
        p = Program()       # constructing a Program is part of the code under observation
        if arg.get("rom") == "high":
            p.resolver.rom_type = RomType.high_rom
        for k, v in (arg.get("defines") or {}).items():
            p.resolver.current_scope.add_symbol(k, v)
        err = p.assemble_string_with_emitter(arg["src"], arg.get("filename", "memory.s"), w)
        if err is None:
            out["ok"] = True
        else:
            out["err"] = str(err)
    except RecursionError:
        out["exc"] = "RecursionError"
        out["err"] = "RecursionError"
    except BaseException as e:  # noqa: BLE001 - every failure is an observation
        out["exc"] = type(e).__name__
        try:
            out["err"] = str(e)
        except Exception:
            out["err"] = repr(e)
    if out["ok"]:
        out["calls"] = [[a, list(b)] for a, b in w.calls]
        try:
            out["labels"] = [[n, v] for n, v in p.resolver.get_all_labels()]
        except Exception:
            out["labels"] = []
        if arg.get("want_symbols"):
            syms = {}
            for n in arg["want_symbols"]:
                try:
                    syms[n] = p.resolver.scopes[0].value_for(n)
                except Exception:
                    syms[n] = None
            out["symbols"] = syms
    return out


def assemble_many(arg: dict) -> list[dict]:
    """arg['items'] = list of assemble() arguments; used to batch tiny programs"""
    return [assemble(a) for a in arg["items"]]


# ------------------------------------------------------------------------------------------
# expressions (C06)
# ------------------------------------------------------------------------------------------
def to_wide(n: int) -> list[int]:
    n &= (1 << 48) - 1
    return [(n >> (12 * k)) & 0xFFF for k in range(4)]


def _bytes_of(o: dict, skip: int, n: int | None = None):
    bs = [b for _, blk in o["calls"] for b in blk]
    return bs[skip:] if n is None else bs[skip:skip + n]


def expr_contexts(arg: dict) -> list[dict]:
    """Evaluate one expression text in each requested context.
    arg: {"text", "env": {name: int}, "ctxs": [..]} -> [{"ctx", "ok", "val"|"bytes", "err"}]"""
    from a816.parse.ast.expression import eval_expression_str
    from a816.symbols import Resolver
    text = arg["text"]
    pre = "".join(f"{k} := {v}\n" for k, v in arg["env"].items())
    out = []
    for ctx in arg["ctxs"]:
        if ctx == "eval":
            r = Resolver()
            for k, v in arg["env"].items():
                r.current_scope.add_symbol(k, v)
            try:
                v = eval_expression_str(text, r)
                if isinstance(v, int) and abs(v) < (1 << 46):
                    out.append({"ctx": ctx, "ok": True, "val": to_wide(v)})
                else:
                    out.append({"ctx": ctx, "ok": True, "val": [-1, -1, -1, -1], "big": str(v)})
            except BaseException as e:  # noqa: BLE001
                out.append({"ctx": ctx, "ok": False, "val": [0, 0, 0, 0], "err": f"{type(e).__name__}: {e}"})
            continue
        skip = 0
        if ctx == "imm16":
            body, skip = f"lda.w #{text}\n", 1
        elif ctx == "long24":
            body, skip = f"lda.l {text}\n", 1
        elif ctx == "dirauto":
            body, skip = f"lda {text}\n", 1
        elif ctx in ("dl", "dw", "db", "pointer"):
            body = f".{ctx} {text}\n"
        elif ctx == "sym":
            body = f"val = {text}\n.dl val\n"
        elif ctx == "assign":
            body = f"val := {text}\n.dl val\n"
        elif ctx == "macro":
            body = f".macro mm(p) {{\n.dl p\n}}\nmm({text})\n"
        elif ctx == "deep":
            # two blocks below the definitions, the inner ones defining nothing
            body = "{\n{\n.dl " + text + "\n}\n}\n"
        elif ctx == "macro2":
            # the expression is the SECOND argument; the first parameter is named like an identifier of the call site
            import re as _re
            first = next((n for n in arg["env"] if _re.search(r"(?<![A-Za-z0-9_.])" + _re.escape(n) + r"(?![A-Za-z0-9_.])", text)), "x")
            body = f".macro mm2({first}, p) {{\n.dl p\n}}\nmm2(0x77, {text})\n"
        elif ctx == "if":
            body = f".if {text} {{\n.db 1\n}} else {{\n.db 0\n}}\n"
        elif ctx == "for":
            body = f".for k := 0, {text} {{\n.db k\n}}\n"
        else:
            raise ValueError(ctx)
        o = assemble({"src": pre + "*=0x008000\n" + body})
        out.append({"ctx": ctx, "ok": bool(o["ok"]), "bytes": _bytes_of(o, skip) if o["ok"] else [], "err": o["err"]})
    return out


# ------------------------------------------------------------------------------------------
# IPS writer (C11)
# ------------------------------------------------------------------------------------------
def pattern(w: dict) -> bytes:
    return bytes((w["seed"] + j * w["step"]) % 256 for j in range(w["len"]))


def ips_write(arg: dict) -> dict:
    """Feed a history of writes to the real IPSWriter; log the produced file as bytes."""
    from a816.writers import IPSWriter
    f = io.BytesIO()
    w = IPSWriter(f, arg["header"])
    refused_at = 0
    err = None
    w.begin()
    for k, wr in enumerate(arg["writes"], 1):
        try:
            w.write_block(pattern(wr), wr["addr"])
        except BaseException as e:  # noqa: BLE001
            refused_at = k
            err = f"{type(e).__name__}: {e}"
            break
    if not refused_at:
        try:
            w.end()
        except BaseException as e:  # noqa: BLE001
            refused_at = -1          # refused while closing the file
            err = f"{type(e).__name__}: {e}"
    return {"refused_at": refused_at, "err": err, "file": list(f.getvalue()) if not refused_at else []}


# ------------------------------------------------------------------------------------------
# .include_ips (C13)
# ------------------------------------------------------------------------------------------
def _ips_program(placement: str, directive: str) -> str:
    d = {p: "" for p in ("first", "between", "block", "after", "reloc_rom", "reloc_ram", "macro")}
    d[placement] = directive + "\n"
    if placement in ("reloc_rom", "reloc_ram"):
        # the directive sits in the middle of a block that is assembled to run elsewhere (@=)
        target = "0x028000" if placement == "reloc_rom" else "0x7e2000"
        return ("*=0x008000\nstart:\n.db 7\n@=" + target + "\nrun:\n.db 1, 2\n" + d[placement] +
                "mid:\n.db 3\n.dl run, mid\n*=0x018000\ntail:\n.db 4\n.dl start, tail\n")
    if placement == "macro2":
        # the delta is a macro parameter and the macro is applied twice with different deltas: the directive text
        # given is `.include_ips 'p.ips', D`; the second application shifts by a further 0x40000
        if not directive:
            return "*=0x008000\nstart:\n.db 1\nmid:\n.db 3\n.dl start, mid\n"
        path = directive.split(",")[0]
        d = directive.split(",", 1)[1].strip()
        return ("*=0x008000\n.macro patch(delta) {\n" + path + ", delta\n}\nstart:\n.db 1\npatch(" + d + ")\npatch(" + d +
                " + 0x40000)\nmid:\n.db 3\n.dl start, mid\n")
    if placement == "macro":
        return ("*=0x008000\n.macro patch() {\n.db 5\n" + d["macro"] + ".db 6\n}\nstart:\n.db 1\npatch()\nmid:\n.db 3\n"
                ".dl start, mid\n")
    return ("*=0x008000\n" + d["first"] + "start:\n.db 1, 2\n" + d["between"] + "mid:\n.db 3\n{\n.db 9\n" + d["block"] +
            "inner:\n.dw inner\n}\n*=0x018000\n" + d["after"] + "tail:\n.db 4\n.dl start, mid, tail\n")


def include_ips_case(arg: dict) -> dict:
    files = {"p.ips": {"bytes": arg["file"]}}
    delta = arg["delta"]
    dtxt = f"-0x{-delta:x}" if delta < 0 else f"0x{delta:x}"
    directive = f".include_ips 'p.ips', {dtxt}"
    base = assemble({"src": _ips_program(arg["placement"], ""), "files": files})
    with_ = assemble({"src": _ips_program(arg["placement"], directive), "files": files})
    pick = lambda o: {"ok": o["ok"], "calls": o["calls"], "labels": o["labels"], "err": o["err"]}  # noqa: E731
    out = {"base": pick(base), "with": pick(with_), "fe": []}
    if arg.get("file_entries"):
        # the same source through the file entry points: did they report success?
        for entry, fmt in (("assemble", "sfc"), ("patch", "ips")):
            o = run_entry({"entry": entry, "src": _ips_program(arg["placement"], directive), "files": files, "format": fmt,
                           "mapping": "low", "header": False})
            out["fe"].append(bool(o.get("status") == 0 and not o.get("raised")))
    return out


# ------------------------------------------------------------------------------------------
# tables (C18)
# ------------------------------------------------------------------------------------------
# characters outside ASCII travel through the specification as ASCII placeholders (one symbol each)
PLACEHOLDER = {"<e1>": "\u00e9", "<e2>": "\u00e7", "<e3>": "\u3042"}
UNPLACE = {v: k for k, v in PLACEHOLDER.items()}


def _ch(c: str) -> str:
    return PLACEHOLDER.get(c, c)


def render_table(entries: list[dict]) -> str:
    return "".join("".join(f"{b:02X}" for b in e["code"]) + "=" + "".join(_ch(c) for c in e["text"]) + "\n" for e in entries)


def render_symbols(s: list[dict]) -> str:
    return "".join(_ch(x["v"]) if x["k"] == "c" else f"[0x{x['v']:02X}]" for x in s)


def table_codec(arg: dict) -> list[dict]:
    """Load a generated table through the real Table class; run every string through the codec."""
    from script import Table
    write_files({"t.tbl": {"text": render_table(arg["table"])}})
    t = Table("t.tbl")
    out = []
    for s in arg["strings"]:
        text = render_symbols(s)
        try:
            b = t.to_bytes(text)
            back = t.to_text(b)
            out.append({"bytes": list(b), "back": [UNPLACE.get(c, c) for c in back]})
        except BaseException as e:  # noqa: BLE001
            out.append({"bytes": [-1], "back": [], "err": f"{type(e).__name__}: {e}"})
    return out


def table_program(arg: dict) -> dict:
    files = {f"t{k + 1}.tbl": {"text": render_table(t)} for k, t in enumerate(arg["tables"])}
    lines = [f"*=0x{arg['org']:06x}"]
    nscope = 0
    stack: list = []
    for it in arg["items"]:
        if it["k"] == "open":
            nscope += 1
            style = arg.get("scope_style", "block")
            if style == "macro" and nscope % 2:
                # a parameterless macro applied once right after its definition: an application is a scope too
                lines.append(f".macro tm{nscope}() {{")
                stack.append(f"}}\ntm{nscope}()")
                continue
            stack.append("}")
            # named scopes take their name from the nesting depth: siblings share a name (and are still separate scopes)
            lines.append("{" if style == "block" else f".scope lvl{len(stack)} {{")
        elif it["k"] == "ifopen":
            lines.append(".if 1 {")
            stack.append("}")
        elif it["k"] in ("close", "ifclose"):
            lines.append(stack.pop())
        elif it["k"] == "table":
            lines.append(f".table 't{it['t']}.tbl'")
        else:
            lines.append(f".text '{render_symbols(it['s'])}'")
    lines.append("endlabel:")
    src = "\n".join(lines) + "\n"
    o = assemble({"src": src, "files": files})
    end = dict((n, v) for n, v in o["labels"]).get("endlabel", -1)
    return {"ok": o["ok"], "bytes": [b for _, blk in o["calls"] for b in blk], "endlabel": end, "err": o["err"], "src": src}


# ------------------------------------------------------------------------------------------
# abstract programs (C02, C03, C05, C07, C08, C09, C10)
# ------------------------------------------------------------------------------------------
def asm_prog(arg: dict) -> dict:
    """Render an APR program, assemble it, return the observable result."""
    from harness import apr
    src, files = apr.render(arg["prog"])
    o = assemble({"src": src, "files": files, "rom": arg["prog"].get("rom", "low"),
                  "defines": {d["n"]: d["v"] for d in arg["prog"].get("defines", [])}})
    return {"ok": o["ok"], "calls": o["calls"], "labels": sorted(o["labels"]), "err": o["err"], "exc": o["exc"], "src": src}


# ------------------------------------------------------------------------------------------
# sessions (C19)
# ------------------------------------------------------------------------------------------
_IPS = [80, 65, 84, 67, 72, 0x00, 0x12, 0x34, 0, 3, 1, 2, 3, 0x01, 0x80, 0x00, 0, 1, 9, 69, 79, 70]
# five records, two of them overlapping (the order in which they reach the writer is observable)
_IPS5 = ([80, 65, 84, 67, 72] + [0x00, 0x12, 0x34, 0, 3, 1, 2, 3] + [0x01, 0x80, 0x00, 0, 1, 9] + [0x00, 0x12, 0x35, 0, 2, 7, 8]
         + [0x02, 0x00, 0x10, 0, 0, 0, 4, 0xEE] + [0x00, 0x40, 0x00, 0, 2, 5, 6] + [69, 79, 70])
SESSION_SOURCES = {
    "valid": {"src": "*=0x008000\nstart:\nlda.w #0x1234\nloop:\ndex\nbne loop\n.dl start, loop\n"},
    "macros": {"src": "*=0x008000\n.macro m(x) {\nlocal:\n.db x\n.dw local\n}\n.macro helper() {\n.db 0xEE\n}\nm(1)\nm(2)\nhelper()\n"},
    "syms": {"src": "*=0x008000\nshared = 5\nk := 3\nshared_label:\n.db shared, k\n.scope ns {\ninner:\n.db 1\n}\n.dl ns.inner\n"},
    "table": {"src": "*=0x008000\n.table 't.tbl'\n.text 'abba'\n", "files": {"t.tbl": {"text": "01=a\n02=b\n0304=ab\n"}}},
    "map": {"src": ".map identifier=1 bank_range=0x00, 0x3f addr_range=0x8000, 0xffff mask=0x8000\n"
                   ".map identifier=2 bank_range=0x7e, 0x7f addr_range=0x0000, 0xffff mask=0x10000 writable=1\n"
                   "*=0x018000\nhere:\n.dl here\n"},
    "map2": {"src": ".map identifier=2 bank_range=0x00, 0x3f addr_range=0x0000, 0xffff mask=0x10000 writable=1\n"
                    ".map identifier=3 bank_range=0x40, 0x6f addr_range=0x0000, 0xffff mask=0x10000 mirror_bank_range=0xc0, 0xef\n"
                    "*=0x410000\nhere:\n.dl here\n@=0x001000\nram:\n.dl ram\n"},
    "high": {"src": "*=0xC00000\nstart:\njmp.l start\n.dl start\n*=0xC1FFFE\nedge:\n.dl edge\nafter:\n", "rom": "high"},
    "incbinA": {"src": "*=0x008000\n.incbin 'blob.bin'\nafter:\n.dl blob_bin, blob_bin__size, after\n",
                "files": {"blob.bin": {"bytes": [1, 2, 3, 4, 5, 6, 7]}}},
    "ipsA": {"src": "*=0x008000\n.db 1\n.include_ips 'p.ips', 0x200\n.db 2\n", "files": {"p.ips": {"bytes": _IPS}}},
    "failscan": {"src": "*=0x008000\n.db 1\n.ascii 'abc\n.db 2\n"},
    "failparse": {"src": "*=0x008000\n.db 1\nlda.w\n.macro (\n"},
    "failexpand": {"src": "*=0x008000\n.db 1\nnosuchmacro(1)\n"},
    "faillabel": {"src": "*=0x008000\nx_label:\n.db 1\nlda undefined_sym\n"},
    "failemit": {"src": "*=0x008000\nok_label:\n.db 1\n.macro leaked(v) {\n.db v\n}\nleaked_sym = 7\n.dl undefined_sym\n"},
    "incA": {"src": "*=0x008000\n.include 'lib.s'\n.db libval\n", "files": {"lib.s": {"text": "libval = 1\n.db 0x11\n"}}},
    "incfail": {"src": "*=0x008000\n.include 'lib.s'\n.db libval\n", "files": {"lib.s": {"text": "libval = 3\n.ascii 'abc\n.db 0x33\n"}}},
    "p_incB": {"src": "*=0x008000\n.include 'lib.s'\n.db libval\n", "files": {"lib.s": {"text": "libval = 2\n.db 0x22, 0x23\n"}}},
    "p_plain": {"src": "*=0x008000\na:\n.db 1\n{\na:\n.dl a\n}\n.dl a\nlda.w a\nbra a\n"},
    "p_usesmacro": {"src": "*=0x008000\n.db 1\nm(3)\n"},
    "p_usessym": {"src": "*=0x008000\n.db 1\n.dl shared\n.db k\n"},
    "p_text": {"src": "*=0x008000\n.db 1\n.text 'ab'\n"},
    "p_bank": {"src": "*=0x018000\nhere:\n.dl here\n@=0x7e2000\nr:\n.dl r\n*=0x00FFFE\nedge:\n.dl edge\nnext:\n.dl next\n*=0x410000\n.db 1\n"},
    "p_incbinB": {"src": "*=0x008000\n.incbin 'blob.bin'\nafter:\n.dl blob_bin, blob_bin__size, after\n",
                  "files": {"blob.bin": {"bytes": [(3 * j + 1) % 256 for j in range(37)]}}},
    "p_ipsB": {"src": "*=0x008000\n.db 1\n.include_ips 'p.ips', 0\n.db 2\n", "files": {"p.ips": {"bytes": _IPS5}}},
    # the same table path as "table", other contents
    "tableB": {"src": "*=0x008000\n.table 't.tbl'\n.text 'abba'\n", "files": {"t.tbl": {"text": "11=a\n12=b\n"}}},
    "p_tableC": {"src": "*=0x008000\n.table 't.tbl'\n.text 'abba'\nend:\n.dl end\n", "files": {"t.tbl": {"text": "21=b\n2223=a\n24=bb\n"}}},
    # file API from other directories (the working directory stays put): includes are looked up from the working directory
    "fileA": {"entry": "file", "main": "dirA/main.s",
              "files": {"dirA/main.s": {"text": "*=0x008000\n.include 'defs.s'\n.db val\n"}, "dirA/defs.s": {"text": "val = 1\n"}}},
    "fileB": {"entry": "file", "main": "dirB/main.s",
              "files": {"dirB/main.s": {"text": "*=0x008000\n.db 0xB0\nlabelb:\n.dl labelb\n"}, "dirB/defs.s": {"text": "val = 2\n"},
                        "dirB/only_b.s": {"text": "bval = 3\n.db 0xBB\n"}}},
    # a file-API assembly from another directory that fails during emission; that directory holds files named like
    # the ones the probes use
    "fileFail": {"entry": "file", "main": "dirF/main.s",
                 "files": {"dirF/main.s": {"text": "*=0x008000\n.db 1\n.dl undefined_sym_f\n"}, "dirF/lib.s": {"text": "libval = 9\n.db 0x99\n"},
                           "dirF/blob.bin": {"bytes": [9, 9, 9]}, "dirF/t.tbl": {"text": "31=a\n32=b\n"}, "dirF/p.ips": {"bytes": _IPS}}},
    # a named scope's constant exported while the enclosing scope has defined nothing yet
    "scopeconst": {"src": ".scope config {\ndebug = 1\nlevel = 0x42\n}\n*=0x008000\n.db config.level\n"},
    "p_usesscope": {"src": "*=0x008000\n.if config.debug {\n.db 0xAA\n} else {\n.db 0x55\n}\n.db config.level\n"},
    # a relative branch to one logical address under HiROM, then under LoROM
    "highbr": {"src": "*=0x418000\nagain:\nnop\nbne again\nbra again\n", "rom": "high"},
    "p_lowbr": {"src": "*=0x418000\nagain:\nnop\nbne again\nbra again\n"},
    # an included binary whose file name is not an identifier
    # positions visited under the default mapping, then under a declared mapping of another geometry
    "positions": {"src": "*=0x018000\nhere:\n.dl here\n*=0x818000\nmir:\n.dl mir\n@=0x028000\nrel:\n.dl rel\n"},
    "p_map64": {"src": ".map identifier=1 bank_range=0x00, 0x3f addr_range=0x0000, 0xffff mask=0x10000 mirror_bank_range=0x80, 0xbf\n"
                       "*=0x018000\nhere:\n.dl here\n*=0x818000\nmir:\n.dl mir\n@=0x028000\nrel:\n.dl rel\n"},
    # one text mapped twice (the later line wins)
    "p_tableDup": {"src": "*=0x008000\n.table 't.tbl'\n.text 'a'\n.text 'b'\n.text 'ab'\n.text 'ba'\n.text 'aa'\n.text 'bb'\n", "files": {"t.tbl": {"text": "01=a\n02=a\n03=b\n04=b\n05=ab\n06=ab\n07=ba\n08=ba\n09=aa\n0A=aa\n0B=bb\n0C=bb\n"}}},
    "p_incbinDash": {"src": "*=0x008000\n.incbin 'font-8x8.bin'\nafter:\n.dl after\n", "files": {"font-8x8.bin": {"bytes": [1, 2, 3, 4, 5]}}},
    "p_fileA": {"entry": "file", "main": "dirA/main.s",
                "files": {"dirA/main.s": {"text": "*=0x008000\n.include 'defs.s'\n.db val\n"}, "dirA/defs.s": {"text": "val = 1\n"}}},
    "p_fileC": {"entry": "file", "main": "dirC/main.s",
                "files": {"dirC/main.s": {"text": "*=0x008000\n.db 0xC0\n.include 'only_b.s'\n.db bval\n"}}},
    "p_fileD": {"entry": "file", "main": "dirD/main.s", "files": {"dirD/main.s": {"text": "*=0x018000\nd:\n.dl d\n{\nd:\n.dw d\n}\n"}}},
    "p_map": {"src": ".map identifier=1 bank_range=0x00, 0x1f addr_range=0x8000, 0xffff mask=0x8000 mirror_bank_range=0x80, 0x9f\n"
                     "*=0x018000\nhere:\n.dl here\n*=0x818000\nmir:\n.dl mir\n"},
}


def _stable(v, depth=0):
    import enum
    import functools
    if depth > 4:
        return "<deep>"
    if isinstance(v, (int, str, bool, float, bytes, type(None))):
        return repr(v)
    if isinstance(v, enum.Enum):
        return f"{type(v).__name__}.{v.name}"
    if isinstance(v, dict):
        return "{" + ",".join(sorted(f"{_stable(k, depth + 1)}:{_stable(x, depth + 1)}" for k, x in v.items())) + "}"
    if isinstance(v, (list, tuple)):
        return "[" + ",".join(_stable(x, depth + 1) for x in v) + "]"
    if isinstance(v, (set, frozenset)):
        return "{" + ",".join(sorted(_stable(x, depth + 1) for x in v)) + "}"
    if isinstance(v, functools._lru_cache_wrapper):
        return f"lru_cache(currsize={v.cache_info().currsize})"
    if isinstance(v, logging.Logger):
        return f"Logger({v.name})"          # the logging machinery's own caches are not assembler state
    if callable(v) or isinstance(v, type(sys)):
        return f"<{type(v).__name__} {getattr(v, '__qualname__', getattr(v, '__name__', ''))}>"
    if hasattr(v, "__dict__"):
        return f"{type(v).__name__}(" + _stable({k: x for k, x in vars(v).items() if not k.startswith("__")}, depth + 1) + ")"
    return f"<{type(v).__name__}>"


def global_projection() -> dict:
    """Digest of the process-wide state of a816: every module-level value and class attribute of the
    a816.* / script.* modules that is not a function, class or module (those are listed by name only)."""
    import hashlib
    g = {}
    for mname, mod in sorted(sys.modules.items()):
        if mod is None or not (mname == "a816" or mname.startswith("a816.") or mname == "script" or mname.startswith("script.")):
            continue
        for attr, val in sorted(vars(mod).items()):
            if attr.startswith("__"):
                continue
            if isinstance(val, type):
                if getattr(val, "__module__", None) != mname:
                    continue
                for ca, cv in sorted(vars(val).items()):
                    if ca.startswith("__") or callable(cv) or isinstance(cv, (property, staticmethod, classmethod)):
                        continue
                    g[f"{mname}.{attr}.{ca}"] = hashlib.sha1(_stable(cv).encode()).hexdigest()[:10]
                continue
            if isinstance(val, type(sys)):
                continue
            import functools
            if callable(val) and not isinstance(val, functools._lru_cache_wrapper):
                continue
            g[f"{mname}.{attr}"] = hashlib.sha1(_stable(val).encode()).hexdigest()[:10]
    # process-wide state outside the modules: the working directory (relative to the scratch directory)
    try:
        g["process.cwd"] = os.path.relpath(os.getcwd(), _workdir()) if _TMP else "."
    except OSError:
        g["process.cwd"] = "<gone>"
    return g


def _file_assembly(s: dict) -> dict:
    """Program.assemble on a file in a sub-directory of the scratch working directory: status and output file."""
    from a816.program import Program
    write_files(s["files"], chdir=False)
    out = {"ok": False, "err": "", "calls": [], "labels": []}
    try:
        outp = os.path.join(_workdir(), "out.sfc")     # (left in place between the assemblies of a session)
        p = Program()
        st = p.assemble(s["main"], outp)
        out["ok"] = st == 0
        if st == 0:
            with open(outp, "rb") as fh:
                out["calls"] = [[0, list(fh.read())]]
            out["labels"] = [[n, v] for n, v in p.resolver.get_all_labels()]
    except BaseException as e:  # noqa: BLE001
        out["err"] = type(e).__name__
    return out


def _session_child(ids) -> dict:
    try:
        import a816.program  # noqa: F401  (import everything before the first projection)
        import a816.cli  # noqa: F401
        import script.formulas  # noqa: F401
        g0 = global_projection()
        steps = []
        os.chdir(_workdir())      # once: the working directory is part of the process state an assembly must leave alone
        for sid in ids:
            s = SESSION_SOURCES[sid]
            if s.get("entry") == "file":
                o = _file_assembly(s)
            else:
                o = assemble({"src": s["src"], "files": s.get("files"), "rom": s.get("rom"), "keep_cwd": True})
            import re
            # default object reprs carry a memory address: not part of the error's meaning
            err = re.sub(r" object at 0x[0-9a-fA-F]+>", " object at 0x?>", o["err"] or "")
            steps.append({"src": sid, "res": {"ok": o["ok"], "calls": o["calls"], "labels": o["labels"], "err": err},
                          "g": global_projection()})
        return {"g0": g0, "steps": steps}
    except BaseException as e:  # noqa: BLE001
        import traceback
        return {"driver_error": f"{type(e).__name__}: {e}", "tb": traceback.format_exc()[-1500:]}


def session_history(arg: dict) -> dict:
    """Run the assemblies arg['ids'] one after the other in ONE fresh process (forked from this worker,
    which has imported nothing of a816 state-changing: the worker itself never assembles for C19)."""
    import json
    import select
    import signal
    if arg.get("hashseed") is not None:
        # a really fresh interpreter, with its own string-hash seed
        import subprocess
        wd = _workdir()
        here = os.path.dirname(os.path.dirname(os.path.abspath(__file__)))
        env = dict(os.environ)
        env["PYTHONHASHSEED"] = str(arg["hashseed"])
        env["PYTHONPATH"] = here + os.pathsep + REPO
        code = ("import json,sys; from harness import drivers; "
                "print('RESULT:' + json.dumps(drivers._session_child(json.loads(sys.argv[1]))))")
        try:
            p = subprocess.run([sys.executable, "-c", code, json.dumps(arg["ids"])], capture_output=True, text=True, timeout=90, env=env, cwd=wd)
        except subprocess.TimeoutExpired:
            return {"hang": True}
        line = next((ln for ln in p.stdout.splitlines() if ln.startswith("RESULT:")), None)
        if line is None:
            return {"driver_error": "fresh interpreter produced no result: " + (p.stderr or "")[-500:]}
        return json.loads(line[7:])
    r, w = os.pipe()
    pid = os.fork()
    if pid == 0:
        try:
            os.close(r)
            out = _session_child(arg["ids"])
            with os.fdopen(w, "w") as fh:
                fh.write(json.dumps(out))
        finally:
            os._exit(0)
    os.close(w)
    chunks = []
    deadline = 90.0
    import time
    t0 = time.time()
    with os.fdopen(r, "r") as fh:
        while True:
            left = deadline - (time.time() - t0)
            if left <= 0:
                os.kill(pid, signal.SIGKILL)
                os.waitpid(pid, 0)
                return {"hang": True}
            rd, _, _ = select.select([fh], [], [], min(left, 1.0))
            if rd:
                c = fh.read()
                chunks.append(c)
                break
    os.waitpid(pid, 0)
    try:
        return json.loads("".join(chunks))
    except Exception as e:  # noqa: BLE001
        return {"driver_error": f"child produced no result: {e}"}


# ------------------------------------------------------------------------------------------
# entry points (C12, C14)
# ------------------------------------------------------------------------------------------
def run_entry(arg: dict) -> dict:
    """Run one entry point.  arg: {entry, src, files, asm_name, missing_source, format, mapping, header, defines, symfile}
    -> {returned, raised, status, success_text, out (file bytes), err, log, sym (symbol file text)}"""
    import subprocess
    wd = _workdir()
    import shutil
    sub = os.path.join(wd, "entry")
    shutil.rmtree(sub, ignore_errors=True)
    os.makedirs(sub)
    os.chdir(sub)
    for name, c in (arg.get("files") or {}).items():
        mode, data = ("w", c["text"]) if "text" in c else ("wb", bytes(c["bytes"]))
        with open(name, mode) as fh:
            fh.write(data)
    asm = arg.get("asm_name", "main.s")
    if not arg.get("missing_source"):
        with open(asm, "w", encoding="utf-8") as fh:
            fh.write(arg["src"])
    entry = arg["entry"]
    fmt = arg.get("format", "ips")
    mapping = arg.get("mapping", "low")
    header = bool(arg.get("header"))
    defines = arg.get("defines") or {}
    outname = "out." + fmt
    res = {"returned": "n/a", "raised": False, "status": -999, "success_text": False, "out": None, "err": "", "sym": None}
    if entry == "cli":
        cmd = [sys.executable, "-m", "a816.cli", "-o", outname, "-f", fmt, "-m", mapping]
        if header:
            cmd.append("--copier-header")
        cmd.append(asm)   # positional before -D: nargs='+' would swallow it otherwise
        if defines:
            texts = arg.get("define_texts") or {}
            cmd += ["-D"] + [f"{k}={texts.get(k, v)}" for k, v in defines.items()]
        env = dict(os.environ)
        env["PYTHONPATH"] = REPO
        env.pop("A816_VERIF", None)
        try:
            p = subprocess.run(cmd, capture_output=True, text=True, timeout=60, env=env, cwd=sub)
            res["status"] = p.returncode
            res["log"] = (p.stdout + p.stderr)[-3000:]
            res["success_text"] = "Success" in (p.stdout + p.stderr)
        except subprocess.TimeoutExpired:
            return {"hang": True}
    else:
        import logging as _l
        from a816.cpu.cpu_65c816 import RomType
        from a816.program import Program
        from harness.stub import StubWriter
        buf = io.StringIO()
        _l.disable(_l.NOTSET)
        h = _l.StreamHandler(buf)
        root = _l.getLogger()
        root.addHandler(h)
        old = root.level
        root.setLevel(_l.INFO)
        try:
            p = Program()
            for k, v in defines.items():
                p.resolver.current_scope.add_symbol(k, v)
            if entry == "string":
                if mapping != "low":
                    p.resolver.rom_type = {"low2": RomType.low_rom_2, "high": RomType.high_rom}[mapping]
                w = StubWriter()
                r = p.assemble_string_with_emitter(arg["src"], asm, w)
                res["returned"] = "none" if r is None else "error"
                res["err"] = "" if r is None else str(r)
                res["calls"] = [[a, list(b)] for a, b in w.calls]
                res["labels"] = [[n, v] for n, v in p.resolver.get_all_labels()] if r is None else []
            elif entry == "assemble":
                if arg.get("via_rom_type"):
                    # the mapping chosen on the resolver, assemble() called without a mapping argument
                    p.resolver.rom_type = {"low": RomType.low_rom, "low2": RomType.low_rom_2, "high": RomType.high_rom}[mapping]
                try:
                    st = (p.assemble(asm, outname, mapping) if arg.get("assemble_takes_mapping") and not arg.get("via_rom_type")
                          else p.assemble(asm, outname))
                except TypeError:
                    st = p.assemble(asm, outname)
                res["status"] = st
            elif entry == "patch":
                res["status"] = p.assemble_as_patch(asm, outname, mapping, header)
            if arg.get("symfile") and entry != "string":
                try:
                    p.exports_symbol_file("out.sym")
                    res["sym"] = open("out.sym").read()
                except Exception as e:  # noqa: BLE001
                    res["sym"] = None
                    res["symerr"] = f"{type(e).__name__}: {e}"
        except BaseException as e:  # noqa: BLE001
            res["raised"] = True
            res["err"] = f"{type(e).__name__}: {e}"
        finally:
            root.removeHandler(h)
            root.setLevel(old)
            _l.disable(_l.CRITICAL)
        res["log"] = buf.getvalue()[-3000:]
        res["success_text"] = "Success" in buf.getvalue()
    if entry != "string" and os.path.exists(outname):
        with open(outname, "rb") as fh:
            res["out"] = list(fh.read())
    return res


# ------------------------------------------------------------------------------------------
# progress (C15)
# ------------------------------------------------------------------------------------------
class BudgetExceeded(BaseException):
    pass


def progress_run(arg: dict) -> dict:
    """Scan and parse arg['text'] with operation-counting subclasses of the public Scanner / Parser
    (deterministic step budget), then assemble it for real (the pool's watchdog is the backstop)."""
    from a816.parse.parser import Parser
    from a816.parse.parser_states import parse_initial
    from a816.parse.scanner import Scanner
    from a816.parse.scanner_states import lex_initial
    text = arg["text"]
    n = len(text)
    sbudget = arg["scan_budget"]
    obs = {"len": n, "tokens": 0, "scan_ops": 0, "parse_ops": 0, "stalled_calls": 0, "calls": 0, "budget_hit": False,
           "hang": False, "outcome": "error"}

    class CScanner(Scanner):
        ops = 0

        def _tick(self):
            self.ops += 1
            if self.ops > sbudget:
                raise BudgetExceeded()

        def next(self):
            self._tick()
            return super().next()

        def peek(self, k=0):
            self._tick()
            return super().peek(k)

        def accept_prefix(self, prefix):
            self._tick()
            return super().accept_prefix(prefix)

    def state(s):
        obs["calls"] += 1
        s._tick()
        before = (s.pos, len(s.tokens))
        lex_initial(s)
        if (s.pos, len(s.tokens)) == before:
            obs["stalled_calls"] += 1

    sc = CScanner(state)
    tokens = None
    try:
        tokens = sc.scan("progress.s", text)
    except BudgetExceeded:
        obs["budget_hit"] = True
    except BaseException:  # noqa: BLE001 - a reported error is a fine way to terminate
        pass
    obs["scan_ops"] = sc.ops
    if tokens is not None:
        obs["tokens"] = len(tokens)
        pbudget = arg["parse_budget_base"] + 40 * (len(tokens) + 2) ** 2

        class CParser(Parser):
            ops = 0

            def _tick(self):
                self.ops += 1
                if self.ops > pbudget:
                    raise BudgetExceeded()

            def current(self):
                self._tick()
                return super().current()

            def next(self):
                self._tick()
                return super().next()

            def peek(self):
                self._tick()
                return super().peek()

        pr = CParser(tokens, parse_initial)
        try:
            write_files({})
            sys.stdout = open(os.devnull, "w")
            pr.parse()
        except BudgetExceeded:
            obs["budget_hit"] = True
        except BaseException:  # noqa: BLE001
            pass
        obs["parse_ops"] = pr.ops
    if not obs["budget_hit"]:
        o = assemble({"src": text, "files": arg.get("files")})
        obs["outcome"] = "ok" if o["ok"] else "error"
    return obs


# ------------------------------------------------------------------------------------------
# error locations (C17)
# ------------------------------------------------------------------------------------------
def errloc_case(arg: dict) -> dict:
    import re
    nl = "\n" if arg["final_newline"] else ""

    def sub(line):
        return line.replace("<vt>", "\x0b").replace("<nel>", "\x85").replace("<ls>", "\u2028")
    arg = dict(arg, main=[sub(x) for x in arg["main"]], part=[sub(x) for x in arg["part"]])
    main = "\n".join(arg["main"]) + (nl if not arg["part"] else "\n")
    files = {}
    if arg["part"]:
        files["part.s"] = {"text": "\n".join(arg["part"]) + nl}
    if arg.get("entry") == "file":
        # the file API: the error goes to the log (or is raised)
        fe = run_entry({"entry": "assemble", "src": main, "files": files, "asm_name": "main.s", "format": "sfc"})
        o = {"ok": fe["status"] == 0 and not fe["raised"], "err": (fe.get("log") or "") + "\n" + (fe.get("err") or "")}
    else:
        o = assemble({"src": main, "files": files, "filename": "main.s"})
    err = o["err"] or ""
    # tolerant extraction of (file, line[, column]) mentions: file:LINE[:COL], file(LINE[,COL]), file, line LINE[, column COL],
    # File "file", line LINE
    pats = [r"([A-Za-z0-9_./-]+\.s):(\d+)(?::(-?\d+))?",
            r"([A-Za-z0-9_./-]+\.s)\((\d+)(?:\s*,\s*(-?\d+))?\)",
            r"([A-Za-z0-9_./-]+\.s)[\"']?\s*,?\s+line\s+(\d+)(?:\s*,?\s*col(?:umn)?\s+(-?\d+))?"]
    locs = [{"file": m.group(1), "line": int(m.group(2)), "col": int(m.group(3)) if m.group(3) is not None else -999}
            for pat in pats for m in re.finditer(pat, err)]
    return {"ok": o["ok"], "locs": locs, "has_text": arg["text"].strip() in err, "err": err}


# ------------------------------------------------------------------------------------------
# scanner token streams (conformance with spec/Scanner.tla, diagnostic)
# ------------------------------------------------------------------------------------------
def scan_tokens(arg: dict) -> dict:
    from a816.parse.errors import ScannerException
    from a816.parse.scanner import Scanner
    from a816.parse.scanner_states import lex_initial
    text = arg["text"]
    budget = 200 * (len(text) + 2) ** 2 + 2000

    class CScanner(Scanner):
        ops = 0

        def _tick(self):
            self.ops += 1
            if self.ops > budget:
                raise BudgetExceeded()

        def next(self):
            self._tick()
            return super().next()

        def peek(self, k=0):
            self._tick()
            return super().peek(k)

        def accept_prefix(self, prefix):
            self._tick()
            return super().accept_prefix(prefix)

    sc = CScanner(lex_initial)
    out = {"toks": [], "err": {"is": False, "line": 0, "col": 0, "msg": ""}, "budget_hit": False}
    try:
        toks = sc.scan("t.s", text)
        out["toks"] = [[t.type.name, ["<nul>" if c == "\0" else c for c in t.value], t.position.line, t.position.column] for t in toks]
    except BudgetExceeded:
        out["budget_hit"] = True
    except ScannerException as e:
        out["err"] = {"is": True, "line": e.position.line, "col": e.position.column, "msg": str(e)}
    return out


# ------------------------------------------------------------------------------------------
# per-node pass addresses through the documented NodeProtocol (C02 observe_at)
# ------------------------------------------------------------------------------------------
def asm_prog_nodes(arg: dict) -> dict:
    """Assemble an APR program while recording, for every node of the node list, the address its pc_after
    received/returned in the label pass and the address / byte count of its emit (instance-level wrappers
    around the NodeProtocol methods; isinstance checks in Program keep working)."""
    from a816.cpu.cpu_65c816 import RomType
    from a816.parse.mzparser import MZParser
    from a816.program import Program
    from harness import apr
    from harness.stub import StubWriter
    src, files = apr.render(arg["prog"])
    write_files(files)
    ev: dict = {}
    order: list = []
    untraced: list = []

    class TracingParser(MZParser):
        def parse(self, program, filename=""):
            err, nodes = super().parse(program, filename)
            for i, n in enumerate(nodes):
                def wrap(node=n, idx=i):
                    pa, em = node.pc_after, node.emit

                    def pc_after(cur):
                        out = pa(cur)
                        order.append(("p", idx, cur.logical_value, out.logical_value))
                        return out

                    def emit(cur):
                        bs = em(cur)
                        order.append(("e", idx, cur.logical_value, len(bs) if bs else 0))
                        return bs
                    try:
                        node.pc_after, node.emit = pc_after, emit
                    except AttributeError:
                        # no instance dictionary (__slots__): a per-node subclass with the same layout
                        cls = type(node)
                        try:
                            node.__class__ = type(cls.__name__, (cls,), {"__slots__": (), "pc_after": lambda self, cur: pc_after(cur),
                                                                          "emit": lambda self, cur: emit(cur)})
                        except TypeError:
                            untraced.append(idx)
                wrap()
            return err, nodes

    out = {"ok": False, "nodes": [], "err": None}
    try:
        p = Program()
        if arg["prog"].get("rom") == "high":
            p.resolver.rom_type = RomType.high_rom
        p.parser = TracingParser(p.resolver)
        err = p.assemble_string_with_emitter(src, "memory.s", StubWriter())
        out["ok"] = err is None
        out["err"] = err
    except BaseException as e:  # noqa: BLE001
        out["err"] = f"{type(e).__name__}: {e}"
    # first pc_after event of a node = label pass (nodes skipped there have none before their second-pass event:
    # a new pass starts when the index does not increase)
    passno, last = 1, -1
    for kind, idx, a, b in order:
        if kind == "p":
            if idx <= last:
                passno += 1
            last = idx
            if passno == 1:
                ev.setdefault(idx, {})["in1"] = a
                ev[idx]["out1"] = b
        else:
            ev.setdefault(idx, {})["in3"] = a
            ev[idx]["n3"] = b
    out["nodes"] = [{"i": i, **v} for i, v in sorted(ev.items()) if "in1" in v and "in3" in v]
    out["untraced"] = len(untraced)
    return out


# ------------------------------------------------------------------------------------------
# syntax layer (Ast.tla): the parser's tree for a rendered APR program, flattened to string tokens
# ------------------------------------------------------------------------------------------
def _flat(x) -> list:
    import enum
    if x is None:
        return ["None"]
    if isinstance(x, str):
        return ["'" + x]
    if isinstance(x, enum.Enum):
        return ["@" + x.name]
    if isinstance(x, (bool, int)):
        return ["#" + str(int(x))]
    if isinstance(x, dict):
        out = ["{"]
        for k in sorted(x):
            out += _flat(k) + _flat(x[k])
        return out + ["}"]
    if isinstance(x, (list, tuple)):
        out = ["("]
        for y in x:
            out += _flat(y)
        return out + [")"]
    return ["<" + type(x).__name__ + ">"]


def ast_of(arg: dict) -> dict:
    """Render an APR program, parse it with the real parser, return the flattened tree."""
    from a816.parse.mzparser import MZParser
    from a816.symbols import Resolver
    from harness import apr
    src, files = apr.render(arg["prog"])
    write_files(files)
    try:
        r = MZParser(Resolver()).parse_as_ast(src, "memory.s")
        if r.error is not None:
            return {"parsed": False, "flat": [], "err": str(r.error)[-300:], "src": src}
        return {"parsed": True, "flat": _flat([n.to_representation() for n in r.nodes]), "err": None, "src": src}
    except BaseException as e:  # noqa: BLE001
        return {"parsed": False, "flat": [], "err": f"{type(e).__name__}: {e}", "src": src}


# ------------------------------------------------------------------------------------------
# script-dumping helpers (Pointers.tla; diagnostic layer beyond the listed properties)
# ------------------------------------------------------------------------------------------
def pointers_case(arg: dict) -> dict:
    import contextlib
    import struct
    out = {"err": "", "values": [], "values_bin": [], "addr_bin": [], "table_read": []}
    try:
        from script.formulas import base_relative_16bits_pointer_formula
        from script.pointers import Script, write_pointers_addresses_as_binary, write_pointers_value_as_binary
        wd = _workdir()
        os.chdir(wd)
        ps = sorted(arg["ps"], key=lambda p: p["id"])
        table = io.BytesIO(b"\xEE" * 3 + b"".join(struct.pack("<H", p["addr"]) for p in ps))
        sc = Script(io.BytesIO(bytes(arg["rom"])))
        with contextlib.redirect_stdout(io.StringIO()):
            out["table_read"] = [p.address for p in sc.read_pointers(table, 3, len(ps), 2, base_relative_16bits_pointer_formula(arg["base"]))]
            ptrs = sc.read_pointers(table, 3, len(ps), 2, base_relative_16bits_pointer_formula(0))
            got = sc.read_pointers_content(ptrs, arg["e"])
            out["values"] = [list(p.get_value()) for p in sorted(got, key=lambda p: p.id)]
            write_pointers_value_as_binary(got, "vals.bin")
            write_pointers_addresses_as_binary(got, lambda o: struct.pack("<H", o), "addr.bin")
        out["values_bin"] = list(open("vals.bin", "rb").read())
        out["addr_bin"] = list(open("addr.bin", "rb").read())
    except BaseException as e:  # noqa: BLE001
        out["err"] = f"{type(e).__name__}: {e}"
    return out
