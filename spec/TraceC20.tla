----------------------------- MODULE TraceC20 -------------------------------
(* Pipeline B for C20: rom_to_snes / snes_to_rom / pointer formulas were evaluated over    *)
(* the whole 4 MiB offset space and recorded as affine runs; every run is judged here.     *)
EXTENDS Legacy, TLC, Json, IOUtils

Trace == ndJsonDeserialize(IOEnv.TRACE_FILE)
Pointwise == IOEnv.POINTS = "all"

VARIABLE i
Init == i = 0
Next == i < Len(Trace) /\ i' = i + 1

Points(s, e) == IF Pointwise \/ e - s < 64 THEN s..e
                ELSE {s, s + 1, e - 1, e} \cup {s + ((e - s) * k) \div 17 : k \in 1..16}

\* "r2s": for o in start..end  rom_to_snes(o, mode) = snes + (o - start)  and
\*        snes_to_rom(rom_to_snes(o, mode)) = o + back_delta   and
\*        (the assembler's bus for the mode).get_address(rom_to_snes(o, mode)).physical = o + phys_delta
R2SClause(r) ==
    LET bad1 == {o \in Points(r.start, r.end) : RomToSnes(o, r.mode) # r.snes + (o - r.start)}
        bad2 == {o \in Points(r.start, r.end) : ~AgreesWithBus(o, r.mode)}
        bad3 == {o \in Points(r.start, r.end) : RoundTripApplies(o, r.mode) /\ r.back_delta # 0}
        \* the real bus of the mode (phys_delta = its file offset for the converted address minus o), wherever the
        \* specified bus maps that address as ROM
        bad4 == {o \in Points(r.start, r.end) : Class(ModeBus(r.mode), RomToSnes(o, r.mode)) = "rom" /\ r.phys_delta # 0}
    IN IF bad1 # {} THEN "rom_to_snes differs from the closed form at " \o ToString(CHOOSE o \in bad1 : TRUE)
       ELSE IF bad2 # {} THEN "closed form disagrees with the bus"
       ELSE IF bad3 # {} THEN "snes_to_rom does not map back at " \o ToString(CHOOSE o \in bad3 : TRUE)
       ELSE IF bad4 # {} THEN "the assembler's mapping puts the converted address at another file offset, at " \o ToString(CHOOSE o \in bad4 : TRUE)
       ELSE "ok"

LlpClause(r) == IF r.base + r.p < 4194304 /\ r.base >= 0 /\ r.p >= 0
                THEN (IF r.bytes = LongLowRomPointer(r.base, r.p) THEN "ok" ELSE "long_low_rom_pointer bytes")
                ELSE "ok"
RelClause(r) == IF r.val = BaseRelative16(r.base, r.lo, r.hi) THEN "ok" ELSE "base_relative_16bits value"

Clause(r) == CASE r.t = "r2s" -> R2SClause(r) [] r.t = "llp" -> LlpClause(r) [] r.t = "rel" -> RelClause(r)

Judge == i = 0 \/ LET r == Trace[i] c == Clause(r) IN
                  IF c = "ok" THEN TRUE ELSE PrintT(ToJson([id |-> r.id, clause |-> c]))
=============================================================================
