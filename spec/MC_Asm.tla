------------------------------ MODULE MC_Asm --------------------------------
(* Small-scope exploration of the Asm machine: ALL programs of at most MaxLen statements     *)
(* over a focus alphabet (FAMILY).  Every state is a token string; complete (balanced)        *)
(* strings are programs.  The design-level properties of C02/C03/C08 are invariants of the    *)
(* spec's result on every program; Emit streams the programs as vectors for pipeline A.       *)
EXTENDS Asm, Json, IOUtils

MaxLen  == atoi(IOEnv.MAXLEN)
Family  == IOEnv.FAMILY
Shard   == atoi(IOEnv.SHARD)
NShards == atoi(IOEnv.NSHARDS)
EmitOn  == IOEnv.EMIT = "1"
PhaseCheck == IOEnv.PHASECHECK # "0"      \* "0" = pinned design (spec mutant)

N(v) == [k |-> "num", v |-> v]
I(n) == [k |-> "id", n |-> n]
Lab(n) == [k |-> "label", n |-> n]
Dat(d, e) == [k |-> "data", d |-> d, es |-> <<e>>]
Op(mn, sh, sfx, e) == [k |-> "op", mn |-> mn, shape |-> sh, sfx |-> sfx, e |-> e]
Star(a) == [k |-> "stareq", e |-> N(a)]
At(a) == [k |-> "ateq", e |-> N(a)]

IpsRecs == <<[off |-> 3145728, data |-> <<1, 2>>, rle |-> FALSE], [off |-> 3145744, data |-> <<85, 85, 85>>, rle |-> TRUE]>>
\* token -> statement (open/close tokens are handled by Tree)
Stmt(t) ==
    CASE t = "La" -> Lab("a") [] t = "Lb" -> Lab("b") [] t = "Lc" -> Lab("c")
      [] t = "DB" -> Dat("db", N(1)) [] t = "DWa" -> Dat("dw", I("a")) [] t = "DLa" -> Dat("dl", I("a"))
      [] t = "DLb" -> Dat("dl", I("b")) [] t = "DLc" -> Dat("dl", I("c")) [] t = "DLna" -> Dat("dl", I("n.a"))
      [] t = "DLnc" -> Dat("dl", I("n.c"))
      [] t = "L_u" -> Lab("_u") [] t = "DLn_u" -> Dat("dl", I("n._u")) [] t = "DL_u" -> Dat("dl", I("_u"))
      [] t = "LDc" -> Op("lda", "dir", "", I("c")) [] t = "LDWc" -> Op("lda", "dir", "w", I("c"))
      [] t = "JMPa" -> Op("jmp", "dir", "w", I("a")) [] t = "NOP" -> Op("nop", "imp", "", N(0))
      [] t = "C3" -> [k |-> "assign", n |-> "c", e |-> N(3)]
      [] t = "C10" -> [k |-> "assign", n |-> "c", e |-> N(16)] [] t = "C1234" -> [k |-> "assign", n |-> "c", e |-> N(4660)]
      [] t = "Ec1234" -> [k |-> "sym", n |-> "c", e |-> N(4660)]
      [] t = "Ec5" -> [k |-> "sym", n |-> "c", e |-> N(5)] [] t = "Eca" -> [k |-> "sym", n |-> "c", e |-> I("a")]
      [] t = "Ea7" -> [k |-> "sym", n |-> "a", e |-> N(7)] [] t = "Ei7" -> [k |-> "sym", n |-> "i", e |-> N(7)]
      [] t = "S1" -> Star(32768) [] t = "S2" -> Star(32770) [] t = "S3" -> Star(98304) [] t = "S4" -> Star(65534)
      [] t = "S5" -> Star(98306) [] t = "S7" -> Star(8257536) [] t = "S7b" -> Star(8257538)
      [] t = "A1" -> At(98304) [] t = "A2" -> At(8257536) [] t = "A3" -> At(32770) [] t = "A4" -> At(8323070)
      [] t = "AP0" -> [k |-> "apply", n |-> "m0", as |-> <<>>]
      [] t = "AP1a" -> [k |-> "apply", n |-> "m1", as |-> <<I("a")>>] [] t = "AP1n" -> [k |-> "apply", n |-> "m1", as |-> <<N(5)>>]
      [] t = "AP1c" -> [k |-> "apply", n |-> "m1", as |-> <<I("c")>>] [] t = "AP1b" -> [k |-> "apply", n |-> "m1", as |-> <<I("b")>>]
      [] t = "AP1_" -> [k |-> "apply", n |-> "m1", as |-> <<>>]         \* too few arguments
      [] t = "AP1k" -> [k |-> "apply", n |-> "m1", as |-> <<[k |-> "code", b |-> <<Dat("db", N(9))>>]>>]
      \* a code block in the first position, a value after it (and the other way round)
      [] t = "AP2kn" -> [k |-> "apply", n |-> "m2", as |-> <<[k |-> "code", b |-> <<Dat("db", N(9))>>], N(7)>>]
      [] t = "AP2nk" -> [k |-> "apply", n |-> "m2", as |-> <<N(7), [k |-> "code", b |-> <<Dat("db", N(9))>>]>>]
      \* a named scope with one label, as one statement
      [] t = "Nla" -> [k |-> "scope", n |-> "n", b |-> <<Lab("a")>>]
      [] t = "IPS" -> [k |-> "ips", file |-> "p1.ips", delta |-> N(512), recs |-> IpsRecs]
      [] t = "IPSc" -> [k |-> "ips", file |-> "p1.ips", delta |-> I("c"), recs |-> IpsRecs]
      \* recursion that ends through a condition on the parameter: m1(p - 1) inside `.if p`
      [] t = "AP1d" -> [k |-> "apply", n |-> "m1", as |-> <<[k |-> "bin", o |-> "-", l |-> I("p"), r |-> N(1)]>>]
      [] t = "AP1n2" -> [k |-> "apply", n |-> "m1", as |-> <<N(2)>>]
      \* two names that differ only in letter case are two names
      [] t = "Lq" -> Lab("q") [] t = "LQ" -> Lab("Q") [] t = "DLq" -> Dat("dl", I("q")) [] t = "DLQ" -> Dat("dl", I("Q"))
      \* `=` whose right-hand side is a name bound only during the passes (label, loop variable, deferred parameter)
      [] t = "Evc" -> [k |-> "sym", n |-> "v", e |-> I("c")] [] t = "DLv" -> Dat("dl", I("v"))
      [] t = "Mvp" -> [k |-> "macro", n |-> "m1", ps |-> <<"p">>, b |-> <<[k |-> "sym", n |-> "v", e |-> I("p")], Dat("dl", I("v"))>>]
      [] t = "P7" -> [k |-> "assign", n |-> "p", e |-> N(7)]
      \* a code-block argument that defines a label, spliced inside explicit blocks of the body
      [] t = "BSP" -> [k |-> "block", b |-> <<[k |-> "splice", p |-> "p"]>>]
      [] t = "AP1kl" -> [k |-> "apply", n |-> "m1", as |-> <<[k |-> "code", b |-> <<Lab("k"), Dat("dl", I("k"))>>]>>]
      \* a position given as a DECIMAL literal (0x018000 = 98304)
      [] t = "S3d" -> [k |-> "stareq", e |-> [k |-> "num", v |-> 98304, dec |-> TRUE]]
      [] t = "A1d" -> [k |-> "ateq", e |-> [k |-> "num", v |-> 98304, dec |-> TRUE]]
      \* an unsuffixed operand over the macro parameter, applied with arguments of different widths
      [] t = "LDp" -> Op("lda", "dir", "", I("p")) [] t = "AP1w" -> [k |-> "apply", n |-> "m1", as |-> <<N(4660)>>]
      [] t = "AP1z" -> [k |-> "apply", n |-> "m1", as |-> <<N(0)>>]
      \* a value parameter and an enclosing application's code-block parameter of the same name
      [] t = "Mdb" -> [k |-> "macro", n |-> "m1", ps |-> <<"p">>, b |-> <<Dat("db", I("p"))>>]
      [] t = "Mwrap" -> [k |-> "macro", n |-> "m2", ps |-> <<"a", "p">>, b |-> <<[k |-> "apply", n |-> "m1", as |-> <<N(66)>>], [k |-> "splice", p |-> "p"]>>]
      \* a macro whose body branches on its first parameter; the second argument is a forward label (deferred)
      [] t = "Mifa" -> [k |-> "macro", n |-> "m2", ps |-> <<"a", "p">>,
                        b |-> <<[k |-> "if", e |-> I("a"), t |-> <<Dat("db", N(17))>>, hasf |-> TRUE, f |-> <<Dat("db", N(34))>>], Dat("dl", I("p"))>>]
      [] t = "AP20b" -> [k |-> "apply", n |-> "m2", as |-> <<N(0), I("b")>>]
      [] t = "AP21b" -> [k |-> "apply", n |-> "m2", as |-> <<N(1), I("b")>>]
      \* a code-block argument that itself opens a scope (a block inside), spliced in a loop of the macro body
      [] t = "AP1kb" -> [k |-> "apply", n |-> "m1", as |-> <<[k |-> "code", b |-> <<[k |-> "block", b |-> <<Dat("db", N(9))>>], Dat("db", N(8))>>]>>]
      [] t = "SPa" -> [k |-> "splice", p |-> "a"]
      [] t = "AP2na" -> [k |-> "apply", n |-> "m2", as |-> <<N(1), I("a")>>]      \* second argument named like the first parameter
      [] t = "AP2ab" -> [k |-> "apply", n |-> "m2", as |-> <<I("b"), N(2)>>]
      [] t = "APx" -> [k |-> "apply", n |-> "nosuchmacro", as |-> <<>>]
      [] t = "DBp" -> Dat("db", I("p")) [] t = "DLp" -> Dat("dl", I("p")) [] t = "DBa" -> Dat("db", I("a"))
      [] t = "DBi" -> Dat("db", I("i")) [] t = "DLi" -> Dat("dl", I("i"))
      [] t = "SPp" -> [k |-> "splice", p |-> "p"]
      [] t = "A5" -> [k |-> "assign", n |-> "a", e |-> N(5)]
      [] t = "BRa" -> [k |-> "branch", mn |-> "bra", e |-> I("a")] [] t = "BRc" -> [k |-> "branch", mn |-> "bra", e |-> I("c")]

AlphaSeq ==
    CASE Family = "moves"  -> <<"S1", "S2", "S3", "S4", "S5", "A1", "A2", "A3", "DB", "DWa", "La", "NOP", "{", "}">>
      [] Family = "labels" -> <<"La", "Lc", "LDc", "LDWc", "JMPa", "DB", "DLa", "DLc", "C10", "C1234", "{", "N{", "}", "S4", "A2", "Eca">>
      [] Family = "scopes" -> <<"La", "Lc", "DLa", "DLc", "DLna", "DLnc", "C10", "Ec5", "Ea7", "{", "N{", "}", "DB">>
      [] Family = "shadow" -> <<"Lc", "LDc", "C10", "C1234", "{", "}", "La", "DLa", "Ec1234">>
      [] Family = "nest"   -> <<"C10", "La", "DLa", "DLc", "{", "}", "N{", "DLna">>
      [] Family = "macro0" -> <<"M0{", "}", "AP0", "La", "DLa", "DB", "{">>
      [] Family = "macros" -> <<"M1{", "M2{", "}", "AP1a", "AP1n", "AP1k", "AP2na", "AP1_", "APx", "DBp", "DLp", "DBa", "SPp", "La", "A5">>
      [] Family = "ctl"    -> <<"IF1{", "IF0{", "IFc{", "IFu{", "IFm{", "}E{", "}", "FOR02{", "FOR13{", "FOR20{", "FOR0c{", "DB", "DBi", "La", "DLa", "C3">>
      [] Family = "capture" -> <<"A5", "M2{", "}", "DBa", "DBp", "AP2na", "AP2ab", "La", "Lb">>
      [] Family = "splice" -> <<"M1{", "}", "{", "N{", "FOR02{", "IF1{", "SPp", "AP1k", "DB">>
      [] Family = "shadowram" -> <<"Lc", "LDc", "C10", "{", "}", "A2", "A1", "La">>
      [] Family = "loopscope" -> <<"FOR02{", "N{", "}", "La", "DLna", "DLa", "DB">>
      [] Family = "shadowdata" -> <<"C10", "Lc", "Ec5", "DLc", "{", "}", "DB", "N{">>
      [] Family = "shadowloop" -> <<"Lc", "LDc", "C10", "FOR02{", "}", "DLc", "DB", "La">>
      \* the loop variable is visible in the loop body only (and shadows an outer i there)
      [] Family = "loopleak" -> <<"FOR02{", "}", "DBi", "Ei7", "{", "DB">>
      \* a deferred (forward-label) argument is evaluated at the call site, not inside the application
      [] Family = "deferarg" -> <<"M1{", "}", "DLp", "La", "AP1a", "{", "DB">>
      [] Family = "splice2" -> <<"M2{", "}", "SPa", "SPp", "DBp", "DBa", "AP2kn", "AP2nk", "DB">>
      \* a named scope declared by a macro body exports into the application, not beyond it
      [] Family = "macroscope" -> <<"M0{", "}", "Nla", "DLna", "AP0", "DB", "{">>
      \* := defines in the scope it stands in: an outer constant of the same name is untouched
      [] Family = "assignleak" -> <<"C3", "C10", "FOR02{", "{", "M0{", "AP0", "}", "DLc", "FOR0c{", "IFc{", "DB">>
      \* a loop variable named like an outer 16-bit constant: the body's size differs between the passes
      [] Family = "shadowloop2" -> <<"C1234", "FORc02{", "}", "LDc", "La", "DLa", "DB">>
      \* .include_ips among position moves, scopes, loops; delta a literal or a constant defined before / after
      [] Family = "ipsfam" -> <<"IPS", "IPSc", "C3", "DB", "S3", "{", "}", "FOR02{", "La", "DLa", "A1">>
      [] Family = "recur" -> <<"M1{", "IFp{", "}", "DBp", "AP1d", "AP1n2">>
      [] Family = "caselabels" -> <<"Lq", "LQ", "DLq", "DLQ", "DB", "{", "}">>
      \* a *= to the very address relocated code has reached (@= ROM), then more bytes
      \* *= to a RAM address (no storage offset) after ROM positions: the bytes follow the previous ones (or the program is refused)
      [] Family = "ramstar" -> <<"S3", "S7", "S7b", "S1", "A1", "DB", "La", "DLa">>
      [] Family = "moves2" -> <<"A1", "DB", "S5", "S3", "La", "DLa", "S3d", "A1d">>
      [] Family = "symshadow" -> <<"C10", "Lc", "Evc", "DLv", "{", "}", "FORc02{">>
      [] Family = "symparam" -> <<"P7", "Mvp", "AP1a", "AP1n", "La", "{", "}">>
      [] Family = "spliceblk" -> <<"M1{", "}", "BSP", "SPp", "AP1kl", "AP1k", "DB">>
      [] Family = "macrowidth" -> <<"M1{", "}", "LDp", "La", "DLa", "AP1n", "AP1w">>
      [] Family = "codeprec" -> <<"Mdb", "Mwrap", "AP2nk", "AP2kn", "AP1n", "DB", "{", "}">>
      \* a loop that starts below zero
      [] Family = "forneg" -> <<"FORm12{", "}", "DBi", "DLi", "La", "DB">>
      [] Family = "deferall" -> <<"Mifa", "AP20b", "AP21b", "Lb", "DB", "{", "}">>
      \* a label of an enclosing block, defined AFTER an inner block that uses the name, shadows the global one
      [] Family = "fwdshadow" -> <<"Lc", "LDc", "BRc", "{", "}">>
      \* a named scope exports what it DEFINES, not what its body merely looks up
      \* names that start with an underscore are exported from named scopes like any other
      [] Family = "underexport" -> <<"N{", "}", "L_u", "DLn_u", "DL_u", "C10", "DB">>
      [] Family = "exportleak" -> <<"C10", "N{", "}", "LDc", "DLnc", "Ec5", "DLc">>
      [] Family = "spliceloop" -> <<"M1{", "FOR02{", "}", "SPp", "AP1kb", "AP1k", "DBi">>
      [] Family = "tiny"   -> <<"La", "DB", "DLa", "{", "}", "S3">>
Alphabet == Range(AlphaSeq)
TokIndex(t) == CHOOSE j \in 1..Len(AlphaSeq) : AlphaSeq[j] = t

\* ---- token string -> nested program body -------------------------------------------------
Openers == {"{", "N{", "M0{", "M1{", "M2{", "IF1{", "IF0{", "IFc{", "IFu{", "IFm{", "IFp{", "FOR02{", "FOR13{", "FOR20{", "FOR0c{", "FOR0p{", "FORc02{", "FORm12{"}
IfCond(t) == CASE t = "IF1{" -> N(1) [] t = "IF0{" -> N(0) [] t = "IFc{" -> I("c") [] t = "IFu{" -> I("undefinedname")
               [] t = "IFm{" -> N(0 - 1) [] t = "IFp{" -> I("p")
ForLo(t) == CASE t = "FOR13{" -> N(1) [] t = "FOR20{" -> N(2) [] t = "FORm12{" -> N(0 - 1) [] OTHER -> N(0)
ForHi(t) == CASE t \in {"FOR02{", "FORc02{", "FORm12{"} -> N(2) [] t = "FOR13{" -> N(3) [] t = "FOR20{" -> N(0) [] t = "FOR0c{" -> I("c") [] t = "FOR0p{" -> I("p")
RECURSIVE TreeFrom(_, _)
\* parses ts from p up to the matching close: [body, next, term]; term is "}" / "}E{" (else) / "end"
TreeFrom(ts, p) ==
    IF p > Len(ts) THEN [body |-> <<>>, next |-> p, term |-> "end"]
    ELSE IF ts[p] \in {"}", "}E{"} THEN [body |-> <<>>, next |-> p + 1, term |-> ts[p]]
    ELSE IF ts[p] \in Openers
         THEN LET t == ts[p]
                  inner == TreeFrom(ts, p + 1)
                  alt == IF inner.term = "}E{" THEN TreeFrom(ts, inner.next) ELSE [body |-> <<>>, next |-> inner.next, term |-> "}"]
                  rest == TreeFrom(ts, alt.next)
                  node == CASE t = "{" -> [k |-> "block", b |-> inner.body]
                            [] t = "N{" -> [k |-> "scope", n |-> "n", b |-> inner.body]
                            [] t = "M0{" -> [k |-> "macro", n |-> "m0", ps |-> <<>>, b |-> inner.body]
                            [] t = "M1{" -> [k |-> "macro", n |-> "m1", ps |-> <<"p">>, b |-> inner.body]
                            [] t = "M2{" -> [k |-> "macro", n |-> "m2", ps |-> <<"a", "p">>, b |-> inner.body]
                            [] t \in {"IF1{", "IF0{", "IFc{", "IFu{", "IFm{", "IFp{"} ->
                                   [k |-> "if", e |-> IfCond(t), t |-> inner.body, hasf |-> inner.term = "}E{", f |-> alt.body]
                            [] OTHER -> [k |-> "for", v |-> IF t = "FORc02{" THEN "c" ELSE "i", a |-> ForLo(t), b |-> ForHi(t), body |-> inner.body]
              IN [body |-> <<node>> \o rest.body, next |-> rest.next, term |-> rest.term]
    ELSE LET rest == TreeFrom(ts, p + 1) IN [body |-> <<Stmt(ts[p])>> \o rest.body, next |-> rest.next, term |-> rest.term]

Prog(ts) == [rom |-> "low", defines |-> <<>>, body |-> <<Star(32768)>> \o TreeFrom(ts, 1).body]

\* the innermost open construct is an .if whose else has not been used yet
RECURSIVE OpenStack(_, _, _)
OpenStack(q, p, stk) == IF p > Len(q) THEN stk
                        ELSE IF q[p] \in Openers THEN OpenStack(q, p + 1, Append(stk, IF q[p] \in {"IF1{", "IF0{", "IFc{", "IFu{", "IFm{", "IFp{"} THEN "if" ELSE "other"))
                        ELSE IF q[p] = "}" THEN OpenStack(q, p + 1, SubSeq(stk, 1, Len(stk) - 1))
                        ELSE IF q[p] = "}E{" THEN OpenStack(q, p + 1, [stk EXCEPT ![Len(stk)] = "else"])
                        ELSE OpenStack(q, p + 1, stk)
ElseAllowed(q) == LET stk == OpenStack(q, 1, <<>>) IN stk # <<>> /\ stk[Len(stk)] = "if"

\* the name a token defines in the scope it stands in ("" if none)
DefName(t) == CASE t \in {"La", "Ea7", "A5"} -> "a" [] t = "Lb" -> "b" [] t = "Ei7" -> "i" [] t = "Lq" -> "q" [] t = "LQ" -> "Q" [] t = "Evc" -> "v" [] t = "P7" -> "p"
                [] t \in {"Lc", "C10", "C1234", "C3", "Ec5", "Eca", "Ec1234"} -> "c" [] OTHER -> ""
\* names defined so far in each open scope (a stack); re-definition in one scope is outside the statements,
\* so such token strings are not extended (they would all be `unspec`)
IsIfOpener(t) == t \in {"IF1{", "IF0{", "IFc{", "IFu{", "IFm{", "IFp{"}

VARIABLES ts, depth, defd
vars == <<ts, depth, defd>>
Init == ts = <<>> /\ depth = 0 /\ defd = <<{}>>
Next == /\ Len(ts) < MaxLen
        /\ \E t \in Alphabet :
             /\ (Len(ts) = 0 => (TokIndex(t) % NShards) = Shard)     \* shard by first token
             /\ (t \in {"}", "}E{"} => depth > 0)
             \* an else may only follow the first branch of an .if that is still open
             /\ (t = "}E{" => ElseAllowed(ts))
             /\ (t \in Openers => depth < 2)
             /\ depth' = (IF t \in Openers THEN depth + 1 ELSE IF t = "}" THEN depth - 1 ELSE depth)
             /\ Len(ts) + 1 + depth' <= MaxLen
             /\ (DefName(t) = "" \/ DefName(t) \notin defd[Len(defd)])
             /\ defd' = (IF t \in Openers THEN Append(defd, IF IsIfOpener(t) THEN defd[Len(defd)] ELSE {})
                         ELSE IF t = "}" THEN SubSeq(defd, 1, Len(defd) - 1)
                         ELSE IF t = "}E{" THEN [defd EXCEPT ![Len(defd)] = defd[Len(defd) - 1]]
                         ELSE IF DefName(t) # "" THEN [defd EXCEPT ![Len(defd)] = @ \cup {DefName(t)}]
                         ELSE defd)
             /\ ts' = Append(ts, t)
Complete == ts # <<>> /\ depth = 0

R == Run(Prog(ts), TRUE, PhaseCheck)

\* The design-level properties, evaluated on one computation of the result r:
\* C02  SizeAgreement: every node sees the same address in the label pass and at emission, hence
\*      LabelIsEmitAddress: every label equals the address where the next byte is emitted;
\* C03  OffsetTracksAddress: outside @= sections the storage offset is the mapped offset of the run
\*      address; ImageContiguous: offsets advance by one per byte except across a *=.
SizeAgreement(r) == r.at1 = r.at3
LabelIsEmitAddress(r) == \A j \in 1..Len(r.nodes) : r.nodes[j].k = "label" => r.defs[<<r.nodes[j].sid, r.nodes[j].n>>].v = r.at3[j]
OffsetTracksAddress(r) == \A j \in 1..Len(r.nodes) : (~r.rel3[j] /\ r.at3[j] >= 0) => r.offs3[j] = Physical(r.bus, r.at3[j])
ImageContiguous(r) == \A j \in 1..(Len(r.img) - 1) : r.img[j + 1][1] = r.img[j][1] + 1 \/ \E m \in 1..Len(r.nodes) : r.nodes[m].k = "stareq"
\* scoping (C08): a label's value never depends on definitions made in sibling scopes: checked through Frame twins in MC_C08
Design == Complete => LET r == R IN
            r.outcome = "ok" => (SizeAgreement(r) /\ LabelIsEmitAddress(r) /\ OffsetTracksAddress(r) /\ ImageContiguous(r))

Emit == (EmitOn /\ Complete) => PrintT(ToJson(Prog(ts)))
=============================================================================
