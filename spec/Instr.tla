------------------------------- MODULE Instr --------------------------------
(* How an instruction statement denotes an ISA instruction (C01):                         *)
(*   operand shape (syntax) x operand width -> ISA addressing mode,                       *)
(*   width = explicit suffix, else the smallest of 1,2,3 bytes holding the value,         *)
(*   encoding = opcode byte ++ little-endian operand truncated to the width.              *)
(* Mirrors a816: parse_opcode / parse_operand_and_addressing (shape), guess_value_size    *)
(* (width), Opcode.emit (encoding), OpcodeNode._get_emitter (rejection).                  *)
EXTENDS Isa65816

\* operand shapes the syntax can express; the last group is malformed (no ISA meaning)
GoodShapes == {"imp", "imm", "dir", "dirx", "diry", "dirs", "ind", "indy", "indxi", "indsy", "lng", "lngy"}
BadShapes  == {"indx", "lngx", "indyi", "indsi", "indxiy", "indyiy", "indsix", "immx", "dirxy"}
Shapes == GoodShapes \cup BadShapes
\*  imp: (none)   imm: #e    dir: e     dirx: e,x   diry: e,y   dirs: e,s
\*  ind: (e)      indy: (e),y           indxi: (e,x)            indsy: (e,s),y
\*  lng: [e]      lngy: [e],y
\*  indx: (e),x   lngx: [e],x  indyi: (e,y)  indsi: (e,s)  indxiy: (e,x),y  indyiy: (e,y),y
\*  indsix: (e,s),x   immx: #e,x   dirxy: e,x,y

\* the ISA mode a shape denotes at operand width w (0 for no operand); "undef" if none
ModeOf(shape, w) ==
    CASE shape = "imp"   /\ w = 0 -> "imp"
      [] shape = "imm"   /\ w \in {1, 2} -> "imm"
      [] shape = "dir"   /\ w = 1 -> "dp"    [] shape = "dir"  /\ w = 2 -> "abs"   [] shape = "dir"  /\ w = 3 -> "long"
      [] shape = "dirx"  /\ w = 1 -> "dpx"   [] shape = "dirx" /\ w = 2 -> "absx"  [] shape = "dirx" /\ w = 3 -> "longx"
      [] shape = "diry"  /\ w = 1 -> "dpy"   [] shape = "diry" /\ w = 2 -> "absy"
      [] shape = "dirs"  /\ w = 1 -> "sr"
      [] shape = "ind"   /\ w = 1 -> "idp"   [] shape = "ind"  /\ w = 2 -> "iabs"
      [] shape = "indy"  /\ w = 1 -> "idpy"
      [] shape = "indxi" /\ w = 1 -> "idpx"  [] shape = "indxi" /\ w = 2 -> "iabsx"
      [] shape = "indsy" /\ w = 1 -> "isry"
      [] shape = "lng"   /\ w = 1 -> "ildp"  [] shape = "lng"  /\ w = 2 -> "ilabs"
      [] shape = "lngy"  /\ w = 1 -> "ildpy"
      [] OTHER -> "undef"

\* smallest width holding a non-negative value; 0 = none of 1,2,3 does
MinWidth(v) == IF v < 256 THEN 1 ELSE IF v < 65536 THEN 2 ELSE IF v < 16777216 THEN 3 ELSE 0

SfxWidth(sfx) == CASE sfx = "b" -> 1 [] sfx = "w" -> 2 [] sfx = "l" -> 3 [] OTHER -> 0

\* the width an instruction statement has: suffix if present, else by magnitude
WidthOf(shape, sfx, v) == IF shape = "imp" THEN 0 ELSE IF sfx # "" THEN SfxWidth(sfx) ELSE MinWidth(v)

\* Is (mnemonic, shape, width) an instruction of the 65c816?
IsaDefined(mn, shape, w) ==
    LET mode == ModeOf(shape, w) IN
    /\ mode # "undef"
    /\ mn \in Mnemonics
    /\ Defined(mn, mode)
    /\ (mode = "imm" => (w = 1 \/ ImmClass(mn) \in {"A", "X"}))
    /\ (mode = "imm" /\ w = 1 /\ ImmClass(mn) = "fix" => TRUE)

Encoding(mn, shape, w, v) == <<Opcode(mn, ModeOf(shape, w))>> \o LE(v, w)

=============================================================================
