------------------------------ MODULE GenC15 --------------------------------
(* Hands the constants of the exhaustive input family of C15 to the harness.                     *)
EXTENDS Progress, TLC, Json
VARIABLE u
Init == u = 0
Next == u = 0 /\ u' = 1
Emit == u = 0 \/ PrintT(ToJson([lexemes |-> Lexemes, quick |-> QuickLen, thorough |-> ThoroughLen]))
=============================================================================
