------------------------------ MODULE MC_C04 --------------------------------
(* Design-level check of the bus laws (C04) on the Bus module itself:                     *)
(* a case machine over (bus, bank); every state evaluates the laws for all offsets of     *)
(* the bank in OFFSETS and all increments in Incs.                                        *)
EXTENDS Bus, TLC, IOUtils

Incs == {0, 1, 2, 3, 32767, 32768, 32769, 65535, 65536, 74565}

Shard   == atoi(IOEnv.SHARD)
NShards == atoi(IOEnv.NSHARDS)
AllOffsets == IOEnv.OFFSETS = "all"

EdgeOffs == {0, 1, 2, 32765, 32766, 32767, 32768, 32769, 32770, 65533, 65534, 65535, 16384, 49152}
StrideOffs == {k * 1021 : k \in 0..64}
Offsets == IF AllOffsets THEN 0..65535 ELSE EdgeOffs \cup StrideOffs

Buses == {LoROM, HiROM} \cup (IF AllOffsets THEN {} ELSE GenBuses)

\* for generated buses: the banks at the ends of each range, their neighbours, RAM and an unmapped one
InterestingBanks(B) == LET m == B[1] IN
    {m.b0, m.b1, m.b0 + 1, m.b1 + 1, 126, 127, 250} \cup (IF m.m0 = NoMirror THEN {} ELSE {m.m0, m.m1, m.m1 + 1})

VARIABLES bus, bank
vars == <<bus, bank>>

Init == bus = <<>> /\ bank = -1
Pick == /\ bank = -1
        /\ \E B \in Buses, b \in 0..255 :
              /\ ((b \div 8) + b) % NShards = Shard        \* spreads every 8th bank over all shards
              /\ (B \in {LoROM, HiROM} \/ b \in InterestingBanks(B))
              \* with all 65536 offsets per bank: the banks at the ends of every range and every 8th bank
              /\ (~AllOffsets \/ b \in InterestingBanks(B) \/ b % 8 = 0 \/ b \in {111, 112, 125, 128, 207, 208, 63, 64, 191, 192, 255})
              /\ bus' = B /\ bank' = b
Next == Pick

\* ---- the laws ----------------------------------------------------------------------
Law(B, a) ==
    LET c == Class(B, a)
        m == B[Owner(B, Bank(a))]
    IN
    /\ (c = "rom" =>
          /\ Physical(B, a) >= 0
          /\ Physical(B, a) = (Bank(a) - RangeFirst(m, Bank(a))) * m.mask + (Off(a) - m.lo)
          \* mirror banks translate like their primary bank
          /\ (InMirror(m, Bank(a)) =>
                LET p == (m.b0 + (Bank(a) - m.m0)) * 65536 + Off(a)
                IN Owner(B, Bank(p)) = Owner(B, Bank(a)) => Physical(B, p) = Physical(B, a))
          /\ Advance(B, a, 0) = a
          /\ \A n \in Incs : AdvanceDefined(B, a, n) =>
                LET a2 == Advance(B, a, n) IN
                /\ Class(B, a2) = "rom"
                /\ Physical(B, a2) = Physical(B, a) + n
                /\ RangeFirst(m, Bank(a2)) = RangeFirst(m, Bank(a))     \* same primary/mirror range
                /\ \A k \in {1, 3, 32768} : AdvanceDefined(B, a, n + k) =>
                       Advance(B, a2, k) = Advance(B, a, n + k))
    /\ (c = "ram" => \A n \in Incs : AdvanceDefined(B, a, n) => Advance(B, a, n) = a + n)

Laws == bank = -1 \/ \A o \in Offsets : Law(bus, bank * 65536 + o)

\* the built-in buses are what the statement says they are
BuiltinShape ==
    /\ Class(LoROM, 32768) = "rom" /\ Physical(LoROM, 32768) = 0
    /\ Class(LoROM, 8421376) = "rom" /\ Physical(LoROM, 8421376) = 0     \* 0x808000 mirrors 0x008000
    /\ Class(LoROM, 8257536) = "ram"                                     \* 0x7E0000
    /\ Class(LoROM, 7340032 + 32768) = "none"                            \* 0x708000
    /\ Class(HiROM, 12582912) = "rom" /\ Physical(HiROM, 12582912) = 0   \* 0xC00000
    /\ Class(HiROM, 4194304) = "rom" /\ Physical(HiROM, 4194304) = 0     \* 0x400000
    /\ Class(HiROM, 8257536) = "ram"
    /\ Class(HiROM, 0) = "none"
=============================================================================
