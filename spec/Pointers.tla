------------------------------ MODULE Pointers ------------------------------
(* The script-dumping helpers of script/pointers.py (beyond the listed properties; a          *)
(* diagnostic layer like Ast).  A ROM is a sequence of bytes (file offset o = index o + 1).      *)
(*   ReadPointers   a table of `count` records of `length` bytes at `address`, each decoded by    *)
(*                  a formula into the address of a text                                          *)
(*   Contents       the texts: the ROM is cut at the pointer addresses (in address order, the    *)
(*                  last text ends at `endAddr`)                                                  *)
(*   ValuesBinary / AddressesBinary   what is written back: the texts in id order and the         *)
(*                  table of their running offsets, encoded by a formula                          *)
(* Laws (checked by MC_Pointers for all small ROMs and tables): the texts partition the ROM       *)
(* between the lowest pointer and endAddr; the written offsets are the prefix sums of the text     *)
(* lengths; cutting the written texts at the written offsets gives the texts back.                 *)
EXTENDS Util

Slice(rom, a, b) == IF b <= a THEN <<>> ELSE SubSeq(rom, a + 1, b)        \* bytes at offsets a .. b-1

ReadPointers(file, address, count, length, Formula(_)) ==
    [j \in 1..count |-> [id |-> j - 1, addr |-> Formula(Slice(file, address + (j - 1) * length, address + j * length))]]

\* stable sort of ps by the parallel key sequence: the element of rank r is the one with r - 1 elements before it
Rank(keys, j) == Cardinality({i \in 1..Len(keys) : keys[i] < keys[j] \/ (keys[i] = keys[j] /\ i < j)}) + 1
SortByKeys(ps, keys) == [r \in 1..Len(ps) |-> ps[CHOOSE j \in 1..Len(ps) : Rank(keys, j) = r]]
ByAddr(ps) == SortByKeys(ps, [j \in 1..Len(ps) |-> ps[j].addr])
ById(ps) == SortByKeys(ps, [j \in 1..Len(ps) |-> ps[j].id])

\* texts of the pointers, in address order: [id, addr, value]
Contents(rom, ps, endAddr) ==
    LET s == ByAddr(ps) IN
    [j \in 1..Len(s) |-> [id |-> s[j].id, addr |-> s[j].addr,
                          value |-> Slice(rom, s[j].addr, IF j < Len(s) THEN s[j + 1].addr ELSE endAddr)]]

ValuesBinary(cs) == LET s == ById(cs) IN Flatten([j \in 1..Len(s) |-> s[j].value])
RECURSIVE Prefix(_, _)
Prefix(s, j) == IF j = 0 THEN 0 ELSE Prefix(s, j - 1) + Len(s[j].value)
Offsets(cs) == LET s == ById(cs) IN [j \in 1..Len(s) |-> Prefix(s, j - 1)]
AddressesBinary(cs, Encode(_)) == LET o == Offsets(cs) IN Flatten([j \in 1..Len(o) |-> Encode(o[j])])

\* ---- laws ---------------------------------------------------------------------------------
Min2(S) == CHOOSE x \in S : \A y \in S : x <= y
PartitionLaw(rom, ps, endAddr) ==
    LET cs == Contents(rom, ps, endAddr)
        lo == Min2({ps[j].addr : j \in 1..Len(ps)}) IN
    Flatten([j \in 1..Len(cs) |-> cs[j].value]) = Slice(rom, lo, endAddr)
RoundTripLaw(rom, ps, endAddr) ==
    LET cs == Contents(rom, ps, endAddr)
        bin == ValuesBinary(cs)
        o == Offsets(cs)
        s == ById(cs) IN
    \A j \in 1..Len(s) : Slice(bin, o[j], IF j < Len(s) THEN o[j + 1] ELSE Len(bin)) = s[j].value
=============================================================================
