-------------------------------- MODULE Front -------------------------------
(* One invocation of an entry point of a816 (a816/cli.py, Program.assemble*, C12 and C14).   *)
(*                                                                                            *)
(* C14: the invocation walks the phases                                                        *)
(*     Read -> Scan -> Parse -> Expand -> Labels -> Symbols -> Emit -> Close -> Done           *)
(* a fault of a given class strikes in the phase that class belongs to and the walk stops       *)
(* there.  Status and the success announcement are functions of the phase history:              *)
(*     status = 0  <=>  Done was reached;   announce  =>  status = 0.                           *)
(*                                                                                            *)
(* C12: the bytes of the output file are related to the writer image of the in-memory          *)
(* assembly of the same source (defines as constants, same ROM type):                          *)
(*     ips: the file is a well-formed patch whose application is the image shifted by the       *)
(*          copier header;   sfc: the file holds the image at its offsets, zero elsewhere.      *)
EXTENDS FrontDefs

VARIABLES entry, fault, phase, failed, status, announced
vars == <<entry, fault, phase, failed, status, announced>>

Init == /\ entry \in EntryPoints /\ fault \in FaultClasses
        /\ phase = "Read" /\ failed = FALSE /\ status = "pending" /\ announced = FALSE
\* the string API gets its source in memory: it has no Read phase to fail in
Applicable == ~(entry = "string" /\ fault = "missing_source")

Step == /\ status = "pending" /\ ~failed /\ phase # "Done"
        /\ IF fault # "none" /\ PhaseOf(fault) = phase
           THEN failed' = TRUE /\ UNCHANGED phase
           ELSE phase' = Phases[PhaseIndex(phase) + 1] /\ UNCHANGED failed
        /\ UNCHANGED <<entry, fault, status, announced>>
\* the caller is told: zero / None exactly when Done was reached, and success is only announced then
Report == /\ status = "pending" /\ (failed \/ phase = "Done")
          /\ status' = (IF failed THEN "error" ELSE "zero")
          /\ announced' = ~failed
          /\ UNCHANGED <<entry, fault, phase, failed>>
Next == Step \/ Report
Spec == Init /\ [][Next]_vars /\ WF_vars(Next)

StatusZeroIffCompleted == status # "pending" => (status = "zero" <=> phase = "Done")
AnnounceImpliesZero == announced => status = "zero"
FaultNeverSuccess == (status # "pending" /\ fault # "none" /\ Applicable) => status = "error"
Terminates == <>(status # "pending")

=============================================================================
