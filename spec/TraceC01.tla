----------------------------- MODULE TraceC01 -------------------------------
(* Judge for C01: each record is one (mnemonic, shape, letter case, operand context) with   *)
(* the observed outcome of every (suffix, value) run.                                      *)
EXTENDS Instr, IsaSupported, TLC, Json, IOUtils

Trace == ndJsonDeserialize(IOEnv.TRACE_FILE)
\* FREEZE=1: nothing is "supported" yet, the run is used to compute the supported set
Freeze == IOEnv.FREEZE = "1"

VARIABLE i
Init == i = 0
Next == i < Len(Trace) /\ i' = i + 1

\* verdict for one run  [sfx, val, ok, bytes]
RunClause(mn, shape, run) ==
    LET w == WidthOf(shape, run.sfx, run.val) IN
    \* without a suffix the width is the smallest of 1..3 bytes that holds the value: when none does there is no
    \* encoding the statement allows, so the instruction must not be accepted
    IF shape # "imp" /\ run.sfx = "" /\ MinWidth(run.val) = 0
    THEN (IF run.ok THEN "assembled an operand that no width of 1..3 bytes holds (no size suffix)" ELSE "ok")
    ELSE IF ~IsaDefined(mn, shape, w)
         THEN (IF run.ok THEN "assembled a combination the 65c816 does not define" ELSE "ok")
    ELSE LET enc == Encoding(mn, shape, w, run.val) IN
         IF run.ok THEN (IF run.bytes = enc THEN "ok" ELSE "wrong bytes, ISA says " \o ToString(enc))
         ELSE IF Freeze \/ <<mn, shape, w>> \notin Supported THEN "ok"
         ELSE IF run.sfx = "l" /\ run.val >= 16777216 THEN "ok"              \* may refuse instead of truncating
         ELSE "supported combination no longer assembles"

Fails(r) == {x \in {[sfx |-> r.runs[k].sfx, val |-> r.runs[k].val, w |-> WidthOf(r.shape, r.runs[k].sfx, r.runs[k].val),
                     clause |-> RunClause(r.mn, r.shape, r.runs[k])] : k \in 1..Len(r.runs)} : x.clause # "ok"}

\* in FREEZE mode report what assembled correctly instead
Good(r) == {<<r.mn, r.shape, WidthOf(r.shape, r.runs[k].sfx, r.runs[k].val)>> : k \in
              {k \in 1..Len(r.runs) : LET run == r.runs[k] w == WidthOf(r.shape, run.sfx, run.val) IN
                    run.ok /\ IsaDefined(r.mn, r.shape, w) /\ run.val < Pow256(IF w = 0 THEN 1 ELSE w)
                    /\ run.bytes = Encoding(r.mn, r.shape, w, run.val)}}

Judge == i = 0 \/ LET r == Trace[i] f == Fails(r) IN
           /\ (f = {} \/ PrintT(ToJson([id |-> r.id, clause |-> "C01", fails |-> f])))
           /\ (~Freeze \/ Good(r) = {} \/ PrintT(ToJson([good |-> Good(r)])))
=============================================================================
