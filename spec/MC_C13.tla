------------------------------ MODULE MC_C13 --------------------------------
(* Design level for C13: the reference reader inverts the reference encoder for every        *)
(* sequence of at most MaxRecs records from a menu (plain, run-length, adjacent, data that    *)
(* spells the EOF marker), and rejects every proper prefix of a well-formed file as well as   *)
(* a file without the PATCH header.  Also the vector source of pipeline A (Emit).            *)
EXTENDS Ips, TLC, Json, IOUtils

K == RealK
MaxRecs == atoi(IOEnv.MAXRECS)
EmitOn == IOEnv.EMIT = "1"

Plain(off, data) == [off |-> off, data |-> data, rle |-> FALSE]
Rle(off, v, n)   == [off |-> off, data |-> Rep(v, n), rle |-> TRUE]
Big == IOEnv.BIG \in {"1", "2"}
\* BIG=2: files whose length is around a reader's buffer size (8192): the EOF marker straddles the boundary
BufMenu == { Plain(256, [j \in 1..n |-> (j * 3) % 253]) : n \in 8170..8186 }
BigMenu == { Plain(512, [j \in 1..65535 |-> (j * 7) % 251]), Rle(70000, 90, 65535), Plain(66047, <<1, 2, 3, 4>>) }
SmallMenu == { Plain(0, <<1>>), Plain(3, <<7, 8, 9>>), Plain(6, <<10>>),           \* adjacent to the previous one
          Plain(66051, <<69, 79, 70>>),                                         \* data spells "EOF"
          Plain(32768, <<0, 0>>),
          Rle(16, 255, 3), Rle(19, 0, 1), Rle(4542277, 69, 2) }                  \* next to the EOF address
Menu == IF IOEnv.BIG = "2" THEN BufMenu ELSE IF Big THEN BigMenu ELSE SmallMenu

VARIABLE recs
Init == recs = <<>>
Next == Len(recs) < MaxRecs /\ \E r \in Menu : recs' = Append(recs, r)

File == Encode(recs, K)
ReadBack == LET r == Read(File, K) IN r.ok /\ r.used = Len(File) /\ r.recs = recs
MalformedRejected ==
    /\ \A t \in 0..(Len(File) - 1) : ~Read(SubSeq(File, 1, t), K).ok
    /\ ~Read(Tail(File), K).ok                                  \* header damaged
    /\ ~Read(<<80, 65, 84, 67, 88>> \o SubSeq(File, 6, Len(File)), K).ok
\* applying what was read equals applying the records
SameEffect == Apply(Read(File, K).recs) = Apply(recs)

Emit == (EmitOn /\ recs # <<>>) => PrintT(ToJson([recs |-> recs, file |-> File]))
=============================================================================
