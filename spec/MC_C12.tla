------------------------------ MODULE MC_C12 --------------------------------
(* Design level for C12: the file relations of FrontDefs are consistent with the writer as      *)
(* specified in Ips.  For every history of at most 2 small blocks (scaled constants) written     *)
(* through Ips!WriteBlock, the resulting patch file satisfies IpsFileClause for the image made    *)
(* of the same blocks, with and without the copier header, and the flat image built from the      *)
(* final image satisfies SfcFileClause; a file with one byte changed does not.                    *)
EXTENDS FrontDefs, IOUtils
K == [maxrec |-> 3, hdr |-> 4, eof |-> 21, limit |-> 64]
VARIABLES blocks, header
Init == blocks = <<>> /\ header \in BOOLEAN
Next == /\ Len(blocks) < 2
        /\ \E a \in 0..12, n \in 1..5 : blocks' = Append(blocks, [addr |-> a, data |-> [j \in 1..n |-> 16 * (Len(blocks) + 1) + j]])
        /\ UNCHANGED header
Pairs == Flatten([j \in 1..Len(blocks) |-> [m \in 1..Len(blocks[j].data) |-> <<blocks[j].addr + m - 1, blocks[j].data[m]>>]])
Recs == Flatten([j \in 1..Len(blocks) |-> WriteBlock(blocks[j], K, header, K.maxrec, TRUE).recs])
PatchFile == Encode(Recs, K)
\* same clause as IpsFileClause but with the scaled constants
ScaledIpsClause(file, pairs, hdr) ==
    LET r == Read(file, K) IN
    r.ok /\ r.used = Len(file) /\ Apply(r.recs) = ShiftImg(Final(pairs), IF hdr THEN K.hdr ELSE 0)
FlatFile == LET img == Final(Pairs) top == CHOOSE o \in DOMAIN img : \A x \in DOMAIN img : x <= o IN
            [j \in 1..(top + 1) |-> IF (j - 1) \in DOMAIN img THEN img[j - 1] ELSE 0]
Corrupt(f) == [f EXCEPT ![Len(f)] = (f[Len(f)] + 1) % 256]
Relations == blocks = <<>> \/
    /\ ScaledIpsClause(PatchFile, Pairs, header)
    /\ SfcFileClause(FlatFile, Pairs) = "ok"
    /\ SfcFileClause(Corrupt(FlatFile), Pairs) # "ok"                     \* the relation is not vacuous
    /\ SfcFileClause(FlatFile \o <<0>>, Pairs) # "ok"
=============================================================================
