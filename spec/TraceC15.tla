----------------------------- MODULE TraceC15 -------------------------------
(* Judge for C15: every record is one input run through the instrumented scanner/parser (and     *)
(* through the whole assembler under a watchdog); Progress!Clause decides.                       *)
EXTENDS Progress, TLC, Json, IOUtils
Trace == ndJsonDeserialize(IOEnv.TRACE_FILE)
VARIABLE i
Init == i = 0
Next == i < Len(Trace) /\ i' = i + 1
\* a record carries a batch of observations
Bad(r) == {k \in 1..Len(r.runs) : Clause(r.runs[k]) # "ok"}
Judge == i = 0 \/ LET r == Trace[i] b == Bad(r) IN
          b = {} \/ PrintT(ToJson([id |-> r.id, clause |-> Clause(r.runs[CHOOSE k \in b : TRUE]), fails |-> b]))
=============================================================================
