------------------------------ MODULE GenC07 --------------------------------
(* Pipeline A for C07: the case machine for data directives.  Cases: directive kind x value   *)
(* list (boundary, negative, wider than the field, beyond 32 bits, forward/backward symbols),  *)
(* .ascii texts, .incbin lengths placed before / at / across a bank end.                       *)
EXTENDS Asm, Json, IOUtils
Full == IOEnv.FULL = "1"
Shard == atoi(IOEnv.SHARD)
NShards == atoi(IOEnv.NSHARDS)

N(v) == [k |-> "num", v |-> v]
I(n) == [k |-> "id", n |-> n]
Big(hi, lo, neg) == [k |-> "big", hi |-> hi, lo |-> lo, neg |-> neg]
Lab(n) == [k |-> "label", n |-> n]
Dat(d, es) == [k |-> "data", d |-> d, es |-> es]
Star(a) == [k |-> "stareq", e |-> N(a)]

ValSeq == << N(0), N(1), N(255), N(256), N(65535), N(65536), N(16777215), N(16777216), N(305419896),
             Big(255, 16777215, FALSE), Big(137, 11259375, FALSE), Big(4660, 86, FALSE),
             N(0 - 1), N(0 - 128), N(0 - 32769), Big(128, 1, TRUE), Big(256, 0, TRUE),
             I("back"), I("fwd"), I("cst"), [k |-> "bin", o |-> "+", l |-> I("fwd"), r |-> N(1)] >>
Vals == Range(ValSeq)
Kinds == {"db", "dw", "dl", "pointer"}

Wrap(stmts, org) == [rom |-> "low", defines |-> <<>>, body |->
    << Star(org), Lab("back"), Dat("db", <<N(0)>>), [k |-> "assign", n |-> "cst", e |-> N(4660)] >> \o stmts \o
    << Lab("after"), Dat("dl", <<I("after")>>), Lab("fwd"), Dat("db", <<N(234)>>) >>]

Bin(n, seed) == [j \in 1..n |-> (seed + 13 * j) % 256]
Incbin(n) == [k |-> "incbin", file |-> "blob.bin", sym |-> "blob_bin", bs |-> Bin(n, n)]
IncbinProg(n, org) == [rom |-> "low", defines |-> <<>>, body |->
    << Star(org), Dat("db", <<N(1)>>), Incbin(n), Lab("after"),
       Dat("dl", <<I("blob_bin"), I("blob_bin__size"), I("after")>>) >>]
\* printable ASCII except the quote and the backslash (escapes are outside the statement)
SafeChar(x) == IF x \in {39, 92} THEN 65 ELSE x
Text(n) == [k |-> "ascii", s |-> [j \in 1..n |-> SafeChar(32 + ((j * 7) % 95))]]

VARIABLE c
Init == c = <<>>
Next == c = <<>> /\
    \/ \E d \in Kinds, v1 \in Vals : c' = Wrap(<<Dat(d, <<v1>>)>>, 32768)
    \/ \E d \in Kinds, v1 \in Vals, v2 \in Vals : c' = Wrap(<<Dat(d, <<v1, v2>>)>>, 32768)
    \/ Full /\ \E d \in Kinds, v1 \in Vals, v2 \in Vals, v3 \in Vals : c' = Wrap(<<Dat(d, <<v1, v2, v3>>)>>, 32768)
    \/ \E d \in Kinds, v1 \in {N(1), I("fwd"), N(0 - 2)} : c' = Wrap(<<Dat(d, <<v1, v1, v1, v1>>)>>, 65530)   \* across a bank end
    \/ \E d1 \in Kinds, d2 \in Kinds : c' = Wrap(<<Dat(d1, <<I("fwd")>>), Dat(d2, <<N(0 - 1), I("back")>>)>>, 98304)
    \/ \E n \in {0, 1, 2, 16, 95, 200} : c' = Wrap(<<Text(n)>>, IF n = 16 THEN 65528 ELSE 32768)
    \/ \E n \in {0, 1, 2, 3, 255, 256}, org \in {32768, 65531} : c' = IncbinProg(n, org)
    \/ \E n \in {32766, 32767, 32768, 32769, 65536} : c' = IncbinProg(n, 32768)       \* window - 1 / window / window + 1
Emit == c = <<>> \/ PrintT(ToJson(c))

\* design level (on the spec's own packing): little-endian truncation laws
LELaws == /\ \A k \in 1..3, v \in {0, 1, 255, 256, 65535, 65536, 16777215, 305419896} : FromLE(LE(v, k)) = v % Pow256(k)
          /\ LE(0 - 1, 2) = <<255, 255>> /\ LE(0 - 128, 1) = <<128>> /\ LE(0 - 32769, 3) = <<255, 127, 255>>
          /\ LE(4660, 3) = <<52, 18, 0>>
\* every case is given a definite meaning by the spec and its layout size equals the emitted bytes
Meaningful == c = <<>> \/ LET r == Spec(c) IN r.outcome = "ok" /\ r.at1 = r.at3
=============================================================================
