------------------------------- MODULE Scanner ------------------------------
(* Character-level model of the lexer (a816/parse/scanner.py, scanner_states.py).           *)
(* A scanner state is a record                                                              *)
(*   inp   the input, a sequence of one-character strings ("<nul>" is the NUL character,     *)
(*         which the code also uses as its end-of-input sentinel)                            *)
(*   pos start lo line     Scanner.pos / start / line_offset / current_line                  *)
(*   toks  emitted tokens [ty, a, b, line, col]  (text = inp[a+1..b])                        *)
(*   st    "run" | "err" (ScannerException) | "spin" (a loop iteration that changes nothing  *)
(*         and would be repeated: non-termination)                                           *)
(* One operator per state function; loops are recursive operators that detect spinning.      *)
(* LexInitial(s) is one call of the scanner's state function.                                *)
EXTENDS Naturals, Sequences, FiniteSets, TLC

Eof == "<nul>"
LowerSeq == <<"a","b","c","d","e","f","g","h","i","j","k","l","m","n","o","p","q","r","s","t","u","v","w","x","y","z">>
UpperSeq == <<"A","B","C","D","E","F","G","H","I","J","K","L","M","N","O","P","Q","R","S","T","U","V","W","X","Y","Z">>
Lower == {LowerSeq[j] : j \in 1..26}
Upper == {UpperSeq[j] : j \in 1..26}
ToLower(c) == IF c \in Upper THEN LowerSeq[CHOOSE j \in 1..26 : UpperSeq[j] = c] ELSE c
Digits == {"0","1","2","3","4","5","6","7","8","9"}
IdStart == Lower \cup Upper \cup {"_"}
IdChars == IdStart \cup Digits
KeywordChars == Lower \cup {"_"}

\* the mnemonics the scanner knows (keys of the opcode table) and those with an implied form
CONSTANTS TableMnemonics, NakedMnemonics, Keywords,
          SizeEatsNewline    \* TRUE: the design before the fix of `lda.` at a line end (a spec mutant MC_Scanner refutes)

Len0(s) == Len(s.inp)
Peek(s, k) == IF s.pos + k < Len0(s) THEN s.inp[s.pos + k + 1] ELSE Eof
AtEnd(s) == s.pos >= Len0(s)
Running(s) == s.st = "run"

HandleLine(s) == IF s.lo <= s.pos THEN [s EXCEPT !.lo = s.pos + 1, !.line = s.line + 1] ELSE s
\* Scanner.next(): consumes one character if there is one (returns None at the end: no progress)
NextC(s) == IF AtEnd(s) THEN s
            ELSE LET t == IF s.inp[s.pos + 1] = "\n" THEN HandleLine(s) ELSE s IN [t EXCEPT !.pos = s.pos + 1]
Backup(s) == [s EXCEPT !.pos = s.pos - 1]
Ignore(s) == [s EXCEPT !.start = s.pos]
Emit(s, ty) == [s EXCEPT !.toks = Append(@, [ty |-> ty, a |-> s.start, b |-> s.pos, line |-> s.line, col |-> s.start - s.lo]),
                         !.start = s.pos]
Raise(s, msg) == [s EXCEPT !.st = "err", !.emsg = msg, !.eline = s.line, !.ecol = s.start - s.lo]
Spin(s, where) == [s EXCEPT !.st = "spin", !.emsg = where]

Accepts(s, set, neg) == IF neg THEN Peek(s, 0) \notin set ELSE Peek(s, 0) \in set
Accept(s, set) == IF Accepts(s, set, FALSE) THEN NextC(s) ELSE s
HasPrefix(s, pre) == s.pos + Len(pre) <= Len0(s) /\ SubSeq(s.inp, s.pos + 1, s.pos + Len(pre)) = pre
SkipPrefix(s, pre) == [s EXCEPT !.pos = s.pos + Len(pre)]

\* accept_run: repeat accept while it succeeds; an accept that succeeds without consuming (end of
\* input) would succeed forever
RECURSIVE AcceptRun(_, _, _)
AcceptRun(s, set, neg) ==
    IF ~Running(s) \/ ~Accepts(s, set, neg) THEN s
    ELSE IF AtEnd(s) THEN Spin(s, "accept_run at end of input")
    ELSE AcceptRun(NextC(s), set, neg)
IgnoreRun(s, set) == LET t == AcceptRun(s, set, FALSE) IN IF Running(t) THEN Ignore(t) ELSE t

Text(s) == SubSeq(s.inp, s.start + 1, s.pos)
LowerText(q) == [j \in 1..Len(q) |-> ToLower(q[j])]

\* ---- lex_number ---------------------------------------------------------------------------
LexNumber(s0) ==
    LET s1 == NextC(Backup(s0))
        ch == s0.inp[s0.pos]           \* the digit that was accepted
    IN IF Peek(s1, 0) \in {"\n", Eof} THEN Emit(s1, "NUMBER")
       ELSE IF ch = "0"
            THEN LET bp == Peek(s1, 0) s2 == NextC(s1) IN
                 IF bp = "b" THEN LET r == AcceptRun(s2, {"0", "1"}, FALSE) IN IF Running(r) THEN Emit(r, "NUMBER") ELSE r
                 ELSE IF bp = "o" THEN LET r == AcceptRun(s2, {"0","1","2","3","4","5","6","7","8"}, FALSE) IN IF Running(r) THEN Emit(r, "NUMBER") ELSE r
                 ELSE IF bp = "x" THEN LET r == AcceptRun(s2, Digits \cup {"A","B","C","D","E","F","a","b","c","d","e","f"}, FALSE) IN
                                       IF Running(r) THEN Emit(r, "NUMBER") ELSE r
                 ELSE Emit(Backup(s2), "NUMBER")
            ELSE LET r == AcceptRun(s1, Digits, FALSE) IN IF Running(r) THEN Emit(r, "NUMBER") ELSE r

\* ---- lex_identifier -------------------------------------------------------------------------
LexIdentifier(s0) ==
    LET s1 == AcceptRun(s0, IdChars, FALSE) IN
    IF ~Running(s1) THEN s1
    ELSE IF Peek(s1, 0) = ":" /\ Peek(s1, 1) # "="
         THEN Ignore(NextC(Emit(s1, "LABEL")))
         ELSE IF Peek(s1, 0) = "."
              THEN LET s2 == AcceptRun(NextC(s1), IdChars, FALSE) IN IF Running(s2) THEN Emit(s2, "IDENTIFIER") ELSE s2
              ELSE Emit(s1, "IDENTIFIER")

\* ---- lex_quoted_string ----------------------------------------------------------------------
RECURSIVE LexQuoted(_)
LexQuoted(s) ==
    IF AtEnd(s) \/ Peek(s, 0) = "\n" THEN Raise(s, "Unterminated String")
    ELSE LET c == Peek(s, 0) s1 == NextC(s) IN
         IF c = "'" THEN Emit(s1, "QUOTED_STRING")
         ELSE IF c = "\\" /\ Peek(s1, 0) = "'" THEN LexQuoted(NextC(s1))
         ELSE LexQuoted(s1)

\* ---- lex_keyword ----------------------------------------------------------------------------
LexKeyword(s0) ==
    LET s1 == AcceptRun(Ignore(s0), KeywordChars, FALSE) IN
    IF ~Running(s1) THEN s1
    ELSE IF Text(s1) \in Keywords THEN Emit(s1, "KEYWORD") ELSE Raise(s1, "Unknown Keyword")

\* ---- lex_expression (operand context) --------------------------------------------------------
RECURSIVE LexExpression(_)
LexExpression(s) ==
    IF ~Running(s) \/ AtEnd(s) THEN s
    ELSE LET s1 == IgnoreRun(s, {" "}) IN
         IF ~Running(s1) THEN s1
         ELSE LET c == Peek(s1, 0) IN
              IF c \in Digits THEN LexExpression(LexNumber(NextC(s1)))
              ELSE IF c \in IdStart THEN LexExpression(LexIdentifier(NextC(s1)))
              ELSE IF c \in {"+", "-", "*", "/", "&", "|", "~"} THEN LexExpression(Emit(NextC(s1), "OPERATOR"))
              ELSE IF HasPrefix(s1, <<"<", "<">>) \/ HasPrefix(s1, <<">", ">">>) THEN LexExpression(Emit(SkipPrefix(s1, <<"<", "<">>), "OPERATOR"))
              ELSE IF c = "(" THEN LexExpression(Emit(NextC(s1), "LPAREN"))
              ELSE IF c = ")" THEN LexExpression(Emit(NextC(s1), "RPAREN"))
              ELSE s1

LexOpcodeIndex(s0) ==
    LET s1 == IgnoreRun(Ignore(s0), {" "}) IN
    IF ~Running(s1) THEN s1
    ELSE IF Peek(s1, 0) \in {"x", "X", "y", "Y", "s", "S"} THEN Emit(NextC(s1), "ADDRESSING_MODE_INDEX")
    ELSE Raise(s1, "Invalid index")

CommaIndex(s) == IF Running(s) /\ Peek(s, 0) = "," THEN LexOpcodeIndex(NextC(s)) ELSE s

LexOperand(s0) ==
    IF ~Running(s0) THEN s0 ELSE
    LET p == Peek(s0, 0)
        s1 == IF p = "#" THEN Emit(NextC(s0), "SHARP") ELSE IF p = "(" THEN Emit(NextC(s0), "LPAREN")
              ELSE IF p = "[" THEN Emit(NextC(s0), "LBRAKET") ELSE s0
        s2 == LexExpression(IgnoreRun(s1, {" "}))
        s3 == IF Running(s2) THEN CommaIndex(IgnoreRun(s2, {" "})) ELSE s2
        s4 == IF ~Running(s3) THEN s3
              ELSE IF Peek(s3, 0) = ")" THEN Emit(NextC(s3), "RPAREN")
              ELSE IF Peek(s3, 0) = "]" THEN Emit(NextC(s3), "RBRAKET") ELSE s3
    IN IF Running(s4) THEN CommaIndex(IgnoreRun(s4, {" "})) ELSE s4

LexOpcodeSize(s0) ==
    LET s1 == Ignore(s0) IN
    IF Peek(s1, 0) \in {"b", "B", "w", "W", "l", "L"}
    THEN LexOperand(IgnoreRun(Emit(NextC(s1), "OPCODE_SIZE"), {" "}))
    \* the character after the dot is consumed, except a line end: the error belongs to the opcode's line
    ELSE Raise(IF Peek(s1, 0) = "\n" /\ ~SizeEatsNewline THEN s1 ELSE NextC(s1), "Invalid Size Specifier")

LexOpcode(s0) ==
    LET cand == LowerText(Text(s0))
        naked == IF cand \in NakedMnemonics /\ Peek(s0, 0) # "."
                 THEN LET t1 == AcceptRun(s0, {" ", "\t"}, FALSE)
                          t2 == IF Running(t1) /\ Peek(t1, 0) = ";" THEN AcceptRun(NextC(t1), {"\n", Eof}, TRUE) ELSE t1
                      IN IF ~Running(t2) THEN "spin" ELSE IF Peek(t2, 0) \in {"\n", Eof} THEN "naked" ELSE "operand"
                 ELSE "operand"
    IN IF naked = "spin" THEN Spin(s0, "comment after a naked opcode")
       ELSE IF naked = "naked" THEN Emit(s0, "OPCODE_NAKED")
       ELSE LET s1 == Emit(s0, "OPCODE")
                s2 == IF Peek(s1, 0) = "." THEN LexOpcodeSize(NextC(s1)) ELSE s1
            IN IF Running(s2) THEN LexOperand(IgnoreRun(s2, {" "})) ELSE s2

\* accept_opcode: three letters that are a mnemonic, followed by blank / newline / tab / dot / end
IsOpcodeHere(s) ==
    /\ s.pos + 3 <= Len0(s)
    /\ LowerText(SubSeq(s.inp, s.pos + 1, s.pos + 3)) \in TableMnemonics
    /\ Peek(s, 3) \in {" ", "\n", "\t", ".", Eof}

\* ---- comments -----------------------------------------------------------------------------
RECURSIVE LineComment(_), BlockComment(_, _)
\* `while s.next() not in ["\n", None]`
LineComment(s) == IF AtEnd(s) THEN Emit(s, "COMMENT")
                  ELSE LET c == Peek(s, 0) s1 == NextC(s) IN IF c = "\n" THEN Emit(s1, "COMMENT") ELSE LineComment(s1)
\* checkEof = TRUE: the repaired loop; FALSE: the pinned loop (spec mutant)
BlockComment(s, checkEof) ==
    IF HasPrefix(s, <<"*", "/">>) THEN Emit(SkipPrefix(s, <<"*", "/">>), "COMMENT")
    ELSE IF AtEnd(s) THEN (IF checkEof THEN Raise(s, "Unterminated Comment") ELSE Spin(s, "block comment at end of input"))
    ELSE BlockComment(NextC(s), checkEof)

\* ---- lex_initial: one call of the state function ------------------------------------------------
LexInitial(s0, checkEof) ==
    LET s == IgnoreRun(s0, {" ", "\t", "\n"}) IN
    IF ~Running(s) THEN s ELSE
    LET c == Peek(s, 0) IN
    IF AtEnd(s) THEN s       \* accept(...) all fail on the sentinel; the final `s.next() is not None` is false: nothing happens
    ELSE IF c = ";" THEN LineComment(NextC(s))
    ELSE IF c \in Digits THEN LexNumber(NextC(s))
    ELSE IF c \in {"+", "-", "&"} THEN Emit(NextC(s), "OPERATOR")
    ELSE IF HasPrefix(s, <<"=", "=">>) \/ HasPrefix(s, <<"!", "=">>) \/ HasPrefix(s, <<">", ">">>) \/ HasPrefix(s, <<"<", "<">>)
         THEN Emit(SkipPrefix(s, <<"=", "=">>), "OPERATOR")
    ELSE IF c \in {">", "<"} THEN Emit(SkipPrefix(s, <<c>>), "OPERATOR")
    ELSE IF c \in IdStart THEN (IF IsOpcodeHere(s) THEN LexOpcode(SkipPrefix(s, <<"x", "x", "x">>)) ELSE LexIdentifier(s))
    ELSE IF c = "." THEN LexKeyword(NextC(s))
    ELSE IF c = "," THEN Emit(NextC(s), "COMMA")
    ELSE IF HasPrefix(s, <<":", "=">>) THEN Emit(SkipPrefix(s, <<":", "=">>), "ASSIGN")
    ELSE IF HasPrefix(s, <<"@", "=">>) THEN Emit(SkipPrefix(s, <<"@", "=">>), "AT_EQ")
    ELSE IF c = "*" THEN (IF Peek(s, 1) = "=" THEN Emit(NextC(NextC(s)), "STAR_EQ") ELSE Emit(NextC(s), "OPERATOR"))
    ELSE IF c = "'" THEN LexQuoted(NextC(s))
    ELSE IF c = "(" THEN Emit(NextC(s), "LPAREN") ELSE IF c = ")" THEN Emit(NextC(s), "RPAREN")
    ELSE IF c = "[" THEN Emit(NextC(s), "LBRAKET") ELSE IF c = "]" THEN Emit(NextC(s), "RBRAKET")
    ELSE IF c = "{" THEN (IF Peek(s, 1) = "{" THEN Emit(NextC(NextC(s)), "DOUBLE_LBRACE") ELSE Emit(NextC(s), "LBRACE"))
    ELSE IF c = "}" THEN (IF Peek(s, 1) = "}" THEN Emit(NextC(NextC(s)), "DOUBLE_RBRACE") ELSE Emit(NextC(s), "RBRACE"))
    ELSE IF c = "=" THEN Emit(NextC(s), "EQUAL")
    ELSE IF HasPrefix(s, <<"/", "*">>) THEN BlockComment(SkipPrefix(s, <<"/", "*">>), checkEof)
    ELSE Raise(NextC(s), "Invalid Input")

SInit(inp) == [inp |-> inp, pos |-> 0, start |-> 0, lo |-> 0, line |-> 0, toks |-> <<>>, st |-> "run", emsg |-> "", eline |-> 0, ecol |-> 0]
\* Scanner.scan: call the state function while input remains, then emit EOF
RECURSIVE ScanFrom(_, _)
ScanFrom(s, checkEof) ==
    IF ~Running(s) THEN s
    ELSE IF AtEnd(s) THEN [Emit(s, "EOF") EXCEPT !.st = "done"]
    ELSE LET t == LexInitial(s, checkEof) IN
         IF Running(t) /\ t.pos = s.pos /\ Len(t.toks) = Len(s.toks) THEN Spin(t, "state function made no progress")
         ELSE ScanFrom(t, checkEof)
Scan(inp, checkEof) == ScanFrom(SInit(inp), checkEof)

\* ---- the position law (C17 at model level) ------------------------------------------------------
NewlinesBefore(inp, a) == Cardinality({j \in 1..a : inp[j] = "\n"})
LineStart(inp, a) == LET N == {j \in 1..a : inp[j] = "\n"} IN IF N = {} THEN 0 ELSE CHOOSE j \in N : \A m \in N : m <= j
\* every token except comments (which swallow their newline) is stamped with the line it starts on
\* and the column of its first character
PositionLaw(s) == \A j \in 1..Len(s.toks) :
    LET t == s.toks[j] IN
    (t.ty \notin {"COMMENT", "EOF"}) => (t.line = NewlinesBefore(s.inp, t.a) /\ t.col = t.a - LineStart(s.inp, t.a))
\* C17: the lexical errors of the statement list are reported at the line and column where the offending token starts
ErrorLaw(s) == (s.st = "err" /\ s.emsg \in {"Invalid Size Specifier", "Invalid index", "Unterminated String"}) =>
               (s.eline = NewlinesBefore(s.inp, s.start) /\ s.ecol = s.start - LineStart(s.inp, s.start))
=============================================================================
