----------------------------- MODULE TraceC13 -------------------------------
(* Judge for C13: a program with `.include_ips 'file', delta` was assembled, and the same     *)
(* program without the directive.  The writer calls of the first must be those of the second  *)
(* with the patch's records (offset + delta, bytes) inserted in order at one place.           *)
EXTENDS Ips, TLC, Json, IOUtils

Trace == ndJsonDeserialize(IOEnv.TRACE_FILE)
VARIABLE i
Init == i = 0
Next == i < Len(Trace) /\ i' = i + 1

\* calls are <<address, bytes>>; compare as ordered (offset, byte) pairs so that a different
\* block split is accepted
FlatCall(c) == [j \in 1..Len(c[2]) |-> <<c[1] + j - 1, c[2][j]>>]
Flat(calls) == Flatten([j \in 1..Len(calls) |-> FlatCall(calls[j])])

IpsCalls(r) == [j \in 1..Len(r.recs) |-> <<r.recs[j].off + r.delta, r.recs[j].data>>]

Clause(r) ==
    IF ~r.base.ok THEN "base program failed (generator error)"
    ELSE IF r.malformed THEN (IF r.with.ok THEN "malformed patch was accepted"
                              \* r.fe: did Program.assemble / assemble_as_patch report success on the same source
                              ELSE IF \E j \in 1..Len(r.fe) : r.fe[j] THEN "malformed patch was accepted by a file entry point"
                              ELSE "ok")
    ELSE IF ~r.with.ok THEN "well-formed patch was rejected"
    ELSE LET fb == Flat(r.base.calls) fw == Flat(r.with.calls) fi == Flat(IpsCalls(r)) IN
         IF r.with.labels # r.base.labels THEN "labels of the surrounding program changed"
         ELSE IF \E p \in 0..Len(fb) : fw = SubSeq(fb, 1, p) \o fi \o SubSeq(fb, p + 1, Len(fb)) THEN "ok"
         ELSE "records not reproduced at offset + delta in order, or surrounding output changed"

Judge == i = 0 \/ LET r == Trace[i] c == Clause(r) IN
                  IF c = "ok" THEN TRUE ELSE PrintT(ToJson([id |-> r.id, clause |-> c]))
=============================================================================
