------------------------------ MODULE GenC14 --------------------------------
(* Case generator for C14: (entry point, fault class, position, base program).                  *)
EXTENDS FrontDefs, Json, IOUtils
GenOn == IOEnv.GEN = "1"
Positions == {"first", "middle", "last", "inblock", "inmacro", "ininclude", "inif", "inelse", "infor", "inscope"}
Bases == {"b1", "b2", "b3"}
VARIABLE c
GInit == c = <<>>
GNext == c = <<>> /\ \E e \in EntryPoints, f \in FaultClasses, p \in Positions, b \in Bases :
            /\ ~(e = "string" /\ f = "missing_source")
            /\ (f \in {"none", "missing_source"} => p = "first")
            /\ c' = [entry |-> e, fault |-> f, pos |-> p, base |-> b]
GEmit == c = <<>> \/ PrintT(ToJson(c))
=============================================================================
