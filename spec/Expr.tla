-------------------------------- MODULE Expr --------------------------------
(* Expressions of a816 (C06).                                                             *)
(*  (i)  the reference grammar by precedence climbing: token string -> tree;               *)
(*  (ii) the shunting-yard conversion AS A STATE MACHINE (a816/parse/ast/expression.py:    *)
(*       output queue, operator stack, one step per classified token), then RPN -> tree;   *)
(*  (iii) evaluation of a tree over Wide integers, with the ~ width rule.                  *)
(* Tokens are records: [k |-> "num", v |-> wide] [k |-> "id", v |-> name]                  *)
(*                     [k |-> "op", o |-> "+"]   [k |-> "lp"] [k |-> "rp"]                 *)
EXTENDS Wide, Util

Invalid == [k |-> "invalid"]

\* conventional precedence: unary - ~ tightest, then *, then + -, then << >>, then &, then |
BinLevel(o) == CASE o = "|" -> 1 [] o = "&" -> 2 [] o \in {"<<", ">>"} -> 3
                 [] o \in {"+", "-"} -> 4 [] o = "*" -> 5 [] OTHER -> 0
IsBin(t, lvl) == t.k = "op" /\ BinLevel(t.o) = lvl
IsUn(t) == t.k = "op" /\ t.o \in {"-", "~"}

\* ---- (i) reference grammar ------------------------------------------------------------
GFail == [ok |-> FALSE]
GOk(t, p) == [ok |-> TRUE, t |-> t, p |-> p]

RECURSIVE GExpr(_, _, _), GTail(_, _, _, _), GUnary(_, _)
GExpr(ts, p, lvl) == IF lvl > 5 THEN GUnary(ts, p)
                     ELSE LET l == GExpr(ts, p, lvl + 1) IN IF l.ok THEN GTail(ts, l.p, lvl, l.t) ELSE GFail
GTail(ts, p, lvl, acc) ==
    IF p <= Len(ts) /\ IsBin(ts[p], lvl)
    THEN LET r == GExpr(ts, p + 1, lvl + 1) IN
         IF r.ok THEN GTail(ts, r.p, lvl, [k |-> "bin", o |-> ts[p].o, l |-> acc, r |-> r.t]) ELSE GFail
    ELSE GOk(acc, p)
GUnary(ts, p) ==
    IF p > Len(ts) THEN GFail
    ELSE LET t == ts[p] IN
         IF IsUn(t) THEN LET r == GUnary(ts, p + 1) IN
                         IF r.ok THEN GOk([k |-> "un", o |-> t.o, e |-> r.t], r.p) ELSE GFail
         ELSE IF t.k \in {"num", "id"} THEN GOk(t, p + 1)
         ELSE IF t.k = "lp" THEN LET r == GExpr(ts, p + 1, 1) IN
                                 IF r.ok /\ r.p <= Len(ts) /\ ts[r.p].k = "rp" THEN GOk(r.t, r.p + 1) ELSE GFail
         ELSE GFail

GrammarTree(ts) == LET r == GExpr(ts, 1, 1) IN IF r.ok /\ r.p = Len(ts) + 1 THEN r.t ELSE Invalid

\* ---- (ii) shunting-yard as a machine ---------------------------------------------------
\* classification of operators by position, as _parse_expression does: an operator where an
\* operand is expected is unary
RECURSIVE ClassifyFrom(_, _, _)
ClassifyFrom(ts, p, expectOperand) ==
    IF p > Len(ts) THEN <<>>
    ELSE LET t == ts[p]
             cls == IF t.k \in {"num", "id"} THEN "term"
                    ELSE IF t.k = "lp" THEN "lp" ELSE IF t.k = "rp" THEN "rp"
                    ELSE IF expectOperand THEN "un" ELSE "bin"
             nxt == cls \in {"un", "bin", "lp"}
         IN <<[tok |-> t, cls |-> cls]>> \o ClassifyFrom(ts, p + 1, nxt)
Classify(ts) == ClassifyFrom(ts, 1, TRUE)

PrecTable(o) == CASE o = "~" -> 2 [] o = "*" -> 3 [] o \in {"+", "-"} -> 4 [] o \in {"<<", ">>"} -> 5
                  [] o = "&" -> 8 [] o = "|" -> 10 [] OTHER -> 99

\* Rule = "intended": a prefix operator never pops, a stacked prefix operator has rank 2.
\* Rule = "pinned"  : the rule of the pinned commit (incoming prefix operator has rank 2 and
\*                    pops; a stacked prefix minus is ranked like binary minus).  Kept so that
\*                    TLC can refute it (spec mutant).
TopPrec(e, rule) == IF rule = "intended" /\ e.cls = "un" THEN 2 ELSE PrecTable(e.tok.o)

RECURSIVE PopWhile(_, _, _, _)
PopWhile(out, stk, p, rule) ==
    IF stk # <<>> /\ stk[Len(stk)].cls # "lp" /\ TopPrec(stk[Len(stk)], rule) <= p
    THEN PopWhile(Append(out, stk[Len(stk)]), SubSeq(stk, 1, Len(stk) - 1), p, rule)
    ELSE [out |-> out, stk |-> stk]

RECURSIVE PopToParen(_, _)
PopToParen(out, stk) ==
    IF stk = <<>> THEN [out |-> out, stk |-> stk, bad |-> TRUE]
    ELSE IF stk[Len(stk)].cls = "lp" THEN [out |-> out, stk |-> SubSeq(stk, 1, Len(stk) - 1), bad |-> FALSE]
    ELSE PopToParen(Append(out, stk[Len(stk)]), SubSeq(stk, 1, Len(stk) - 1))

SYInit == [out |-> <<>>, stk |-> <<>>, bad |-> FALSE]
\* one step of the machine: consume one classified token
SYStep(st, e, rule) ==
    CASE e.cls = "term" -> [st EXCEPT !.out = Append(@, e)]
      [] e.cls = "un"   -> IF rule = "intended" THEN [st EXCEPT !.stk = Append(@, e)]
                           ELSE LET r == PopWhile(st.out, st.stk, 2, rule)
                                IN [st EXCEPT !.out = r.out, !.stk = Append(r.stk, e)]
      [] e.cls = "bin"  -> LET r == PopWhile(st.out, st.stk, PrecTable(e.tok.o), rule)
                           IN [st EXCEPT !.out = r.out, !.stk = Append(r.stk, e)]
      [] e.cls = "lp"   -> [st EXCEPT !.stk = Append(@, e)]
      [] e.cls = "rp"   -> LET r == PopToParen(st.out, st.stk)
                           IN [out |-> r.out, stk |-> r.stk, bad |-> st.bad \/ r.bad]
RECURSIVE Reverse(_)
Reverse(s) == IF s = <<>> THEN <<>> ELSE Append(Reverse(Tail(s)), Head(s))
SYFinish(st) == [st EXCEPT !.out = @ \o Reverse(st.stk), !.stk = <<>>]

RECURSIVE SYRun(_, _, _, _)
SYRun(cs, p, st, rule) == IF p > Len(cs) THEN SYFinish(st) ELSE SYRun(cs, p + 1, SYStep(st, cs[p], rule), rule)
RPN(ts, rule) == SYRun(Classify(ts), 1, SYInit, rule)

\* RPN -> tree with a value stack, as eval_expression walks it
RECURSIVE RpnTree(_, _, _)
RpnTree(q, p, vs) ==
    IF p > Len(q) THEN (IF Len(vs) = 1 THEN vs[1] ELSE Invalid)
    ELSE LET e == q[p] IN
         CASE e.cls = "term" -> RpnTree(q, p + 1, Append(vs, e.tok))
           [] e.cls = "un"   -> IF Len(vs) < 1 THEN Invalid
                                ELSE RpnTree(q, p + 1, Append(SubSeq(vs, 1, Len(vs) - 1),
                                                              [k |-> "un", o |-> e.tok.o, e |-> vs[Len(vs)]]))
           [] e.cls = "bin"  -> IF Len(vs) < 2 THEN Invalid
                                ELSE RpnTree(q, p + 1, Append(SubSeq(vs, 1, Len(vs) - 2),
                                        [k |-> "bin", o |-> e.tok.o, l |-> vs[Len(vs) - 1], r |-> vs[Len(vs)]]))
           [] OTHER -> Invalid
SYTree(ts, rule) == LET r == RPN(ts, rule) IN IF r.bad THEN Invalid ELSE RpnTree(r.out, 1, <<>>)

\* ---- (iii) evaluation over Wide -------------------------------------------------------
\* result: [u |-> unspecified?, v |-> wide].  u = TRUE where the statement gives no value
\* (undefined name, negative shift count, ~ of a negative or > 32-bit value, beyond 46 bits).
Unspec == [u |-> TRUE, v |-> Zero]
Val(v) == IF InRange(v) THEN [u |-> FALSE, v |-> v] ELSE Unspec

NotW(v) == IF IsNeg(v) THEN Unspec
           ELSE LET n == BitLen(v) IN
                IF n <= 8 THEN Val(Sub(AllOnes(8), v))
                ELSE IF n <= 16 THEN Val(Sub(AllOnes(16), v))
                ELSE IF n <= 32 THEN Val(Sub(AllOnes(32), v)) ELSE Unspec

ShiftCount(b) == IF ~IsNeg(b) /\ IsSmall(b) /\ ToSmall(b) <= 64 THEN ToSmall(b) ELSE -1

BinW(o, a, b) ==
    CASE o = "+" -> Val(Add(a, b))
      [] o = "-" -> Val(Sub(a, b))
      [] o = "*" -> IF BitLen(Abs(a)) + BitLen(Abs(b)) <= 46 THEN Val(Mul(a, b)) ELSE Unspec
      [] o = "&" -> Val(WAnd(a, b))
      [] o = "|" -> Val(WOr(a, b))
      [] o = "<<" -> LET k == ShiftCount(b) IN
                     IF k < 0 \/ BitLen(Abs(a)) + k > 46 THEN Unspec ELSE Val(Shl(a, k))
      [] o = ">>" -> LET k == ShiftCount(b) IN
                     IF k < 0 THEN Unspec ELSE Val(Shr(a, Min(k, 48)))

RECURSIVE EvalW(_, _)
EvalW(t, env) ==
    CASE t.k = "num" -> Val(t.v)
      [] t.k = "id"  -> IF t.v \in DOMAIN env THEN Val(env[t.v]) ELSE Unspec
      [] t.k = "un"  -> LET a == EvalW(t.e, env) IN
                        IF a.u THEN Unspec ELSE IF t.o = "-" THEN Val(Neg(a.v)) ELSE NotW(a.v)
      [] t.k = "bin" -> LET a == EvalW(t.l, env) b == EvalW(t.r, env) IN
                        IF a.u \/ b.u THEN Unspec ELSE BinW(t.o, a.v, b.v)
      [] OTHER -> Unspec

GrammarValue(ts, env) == LET t == GrammarTree(ts) IN IF t = Invalid THEN Unspec ELSE EvalW(t, env)
=============================================================================
