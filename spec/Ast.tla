-------------------------------- MODULE Ast ---------------------------------
(* The abstract syntax a816's parser must produce for an APR program (the tree Asm gives a     *)
(* meaning to), in the parser's own representation (AstNode.to_representation), flattened to a *)
(* sequence of string tokens so that comparison with an observed tree is total:                *)
(*     "(" ... ")"  tuple / list        "{" key value ... "}"  mapping, keys in order           *)
(*     "'" \o s     string              "#" \o n   integer       "@" \o name   addressing mode *)
(*     "None"       absent              "?"        any one string (text the scanner decodes)   *)
(* Expressions are kept by the parser as their token texts joined by single blanks.            *)
(* This layer binds harness/apr.py's renderer and the parser (a816/parse/parser_states.py) to  *)
(* the APR trees: Rep(prog) = flat(parse_as_ast(render(prog))).                                 *)
EXTENDS Util, TLC

HexDigits == <<"0", "1", "2", "3", "4", "5", "6", "7", "8", "9", "a", "b", "c", "d", "e", "f">>
HexDigitsU == <<"0", "1", "2", "3", "4", "5", "6", "7", "8", "9", "A", "B", "C", "D", "E", "F">>
RECURSIVE Hex(_)
Hex(v) == IF v < 16 THEN HexDigits[v + 1] ELSE Hex(v \div 16) \o HexDigits[(v % 16) + 1]
RECURSIVE HexPad(_, _)
HexPad(v, n) == IF n = 0 THEN "" ELSE HexPad(v \div 16, n - 1) \o HexDigits[(v % 16) + 1]
HexU2(v) == HexDigitsU[(v \div 16) + 1] \o HexDigitsU[(v % 16) + 1]
Printable == <<" ", "!", "\"", "#", "$", "%", "&", "'", "(", ")", "*", "+", ",", "-", ".", "/", "0", "1", "2", "3", "4", "5", "6", "7", "8", "9", ":", ";", "<", "=", ">", "?", "@", "A", "B", "C", "D", "E", "F", "G", "H", "I", "J", "K", "L", "M", "N", "O", "P", "Q", "R", "S", "T", "U", "V", "W", "X", "Y", "Z", "[", "\\", "]", "^", "_", "`", "a", "b", "c", "d", "e", "f", "g", "h", "i", "j", "k", "l", "m", "n", "o", "p", "q", "r", "s", "t", "u", "v", "w", "x", "y", "z", "{", "|", "}", "~">>

S(x) == <<"'" \o x>>
I(n) == <<"#" \o ToString(n)>>
None == <<"None">>
Tup(parts) == <<"(">> \o Flatten(parts) \o <<")">>

\* ---- expressions: token texts --------------------------------------------------------------
NumText(v) == IF v > 9 THEN "0x" \o Hex(v) ELSE ToString(v)
BigText(e) == "0x" \o (IF e.hi > 0 THEN Hex(e.hi) \o HexPad(e.lo, 6) ELSE Hex(e.lo))
RECURSIVE Toks(_, _)
Toks(e, top) ==
    LET wrap(ts) == IF top THEN ts ELSE <<"(">> \o ts \o <<")">> IN
    CASE e.k = "num" -> IF e.v < 0 THEN wrap(<<"-", ToString(0 - e.v)>>)
                        ELSE IF "dec" \in DOMAIN e /\ e.dec THEN <<ToString(e.v)>> ELSE <<NumText(e.v)>>
      [] e.k = "id"  -> <<e.n>>
      [] e.k = "big" -> IF e.neg THEN wrap(<<"-", BigText(e)>>) ELSE <<BigText(e)>>
      [] e.k = "un"  -> wrap(<<"-">> \o Toks(e.e, FALSE))
      [] e.k = "bin" -> wrap(Toks(e.l, FALSE) \o <<e.o>> \o Toks(e.r, FALSE))
RECURSIVE JoinBlank(_)
JoinBlank(ts) == IF Len(ts) = 1 THEN ts[1] ELSE ts[1] \o " " \o JoinBlank(Tail(ts))
E(e) == S(JoinBlank(Toks(e, TRUE)))
\* an operand that would start with "(" reads as indirect addressing: such operands are written 0 + (...)
StartsParen(e) == Toks(e, TRUE)[1] = "("
Operand(e) == IF StartsParen(e) THEN S("0 + " \o JoinBlank(Toks(e, TRUE))) ELSE E(e)

\* ---- statements -----------------------------------------------------------------------------
Mode(sh) == CASE sh = "imp" -> "none" [] sh = "imm" -> "immediate" [] sh = "dir" -> "direct"
              [] sh \in {"dirx", "diry", "dirs"} -> "direct_indexed" [] sh = "ind" -> "indirect"
              [] sh = "indy" -> "indirect_indexed" [] sh = "indxi" -> "dp_or_sr_indirect_indexed"
              [] sh = "indsy" -> "stack_indexed_indirect_indexed" [] sh = "lng" -> "indirect_long"
              [] sh = "lngy" -> "indirect_indexed_long"
Index(sh) == CASE sh \in {"dirx", "indxi"} -> S("x") [] sh \in {"diry", "indy", "indsy", "lngy"} -> S("y")
               [] sh = "dirs" -> S("s") [] OTHER -> None
Mn(mn, sfx) == IF sfx = "" THEN S(mn) ELSE Tup(<<S(mn), S(sfx)>>)

AsciiOk(cs) == \A j \in 1..Len(cs) : cs[j] >= 32 /\ cs[j] <= 126 /\ cs[j] # 39 /\ cs[j] # 92
RECURSIVE Chars(_)
Chars(cs) == IF cs = <<>> THEN "" ELSE Printable[cs[1] - 31] \o Chars(Tail(cs))
RECURSIVE TextOf(_)
TextOf(xs) == IF xs = <<>> THEN "" ELSE (IF xs[1].k = "c" THEN xs[1].v ELSE "[0x" \o HexU2(xs[1].v) \o "]") \o TextOf(Tail(xs))

MapRep(d) == <<"{">> \o S("addr_range") \o Tup(<<I(d.lo), I(d.hi)>>) \o S("bank_range") \o Tup(<<I(d.b0), I(d.b1)>>)
             \o S("identifier") \o <<"#" \o d.id>> \o S("mask") \o I(d.mask)
             \o (IF d.m0 # 0 - 1 THEN S("mirror_bank_range") \o Tup(<<I(d.m0), I(d.m1)>>) ELSE <<>>)
             \o (IF d.ram THEN S("writable") \o I(1) ELSE <<>>) \o <<"}">>

RECURSIVE Stmt(_), Body(_)
Body(ss) == Tup([j \in 1..Len(ss) |-> Stmt(ss[j])])
Stmt(s) ==
    CASE s.k = "label"  -> Tup(<<S("label"), S(s.n)>>)
      [] s.k = "sym"    -> Tup(<<S("symbol"), S(s.n), E(s.e)>>)
      [] s.k = "assign" -> Tup(<<S("assign"), S(s.n), E(s.e)>>)
      [] s.k = "op"     -> Tup(<<S("opcode"), <<"@" \o Mode(s.shape)>>, Mn(s.mn, s.sfx),
                                 IF s.shape = "imp" THEN None
                                 ELSE IF s.shape \in {"dir", "dirx", "diry", "dirs"} THEN Operand(s.e) ELSE E(s.e),
                                 Index(s.shape)>>)
      [] s.k = "branch" -> Tup(<<S("opcode"), <<"@direct">>, S(s.mn), Operand(s.e), None>>)
      [] s.k = "data"   -> Tup(<<S(s.d), Tup([j \in 1..Len(s.es) |-> E(s.es[j])])>>)
      [] s.k = "ascii"  -> Tup(<<S("ascii"), IF "src" \notin DOMAIN s /\ AsciiOk(s.s) THEN S(Chars(s.s)) ELSE <<"?">>>>)
      [] s.k = "text"   -> Tup(<<S("text"), S(TextOf(s.s))>>)
      [] s.k = "table"  -> Tup(<<S("table"), S("tbl" \o ToString(s.t) \o ".tbl")>>)
      [] s.k = "incbin" -> Tup(<<S("incbin"), S(s.file)>>)
      [] s.k = "ips"    -> Tup(<<S("include_ips"), S(s.file), E(s.delta)>>)
      [] s.k = "stareq" -> Tup(<<S("star_eq"), E(s.e)>>)
      [] s.k = "ateq"   -> Tup(<<S("at_eq"), E(s.e)>>)
      [] s.k = "map"    -> Tup(<<S("map"), MapRep(s.decl)>>)
      [] s.k = "block"  -> Tup(<<S("compound"), Body(s.b)>>)
      [] s.k = "scope"  -> Tup(<<S("scope"), S(s.n), Tup(<<S("block"), Body(s.b)>>)>>)
      \* an included file is parsed in place, as one block
      [] s.k = "include" -> Tup(<<S("block"), Body(s.b)>>)
      [] s.k = "macro"  -> Tup(<<S("macro"), S(s.n), Tup(<<S("args"), Tup([j \in 1..Len(s.ps) |-> S(s.ps[j])])>>), Tup(<<S("block"), Body(s.b)>>)>>)
      [] s.k = "apply"  -> Tup(<<S("macro_apply"), S(s.n),
                                 Tup(<<S("apply_args"), Tup([j \in 1..Len(s.as) |->
                                        IF s.as[j].k = "code" THEN Tup(<<S("block"), Body(s.as[j].b)>>) ELSE E(s.as[j])])>>)>>)
      [] s.k = "splice" -> Tup(<<S("code_lookup"), S(s.p)>>)
      [] s.k = "if"     -> Tup(<<S("if"), E(s.e), Tup(<<S("compound"), Body(s.t)>>),
                                 IF s.hasf THEN Tup(<<S("compound"), Body(s.f)>>) ELSE None>>)
      [] s.k = "for"    -> Tup(<<S("for"), S(s.v), Tup(<<E(s.a)>>), Tup(<<E(s.b)>>), Tup(<<S("compound"), Body(s.body)>>)>>)

Rep(prog) == Body(prog.body)

\* total comparison of two flat token sequences ("?" in the specification matches any one token)
FirstMismatch(spec, obs) ==
    LET n == Min(Len(spec), Len(obs))
        D == {j \in 1..n : spec[j] # "?" /\ spec[j] # obs[j]}
    IN IF D # {} THEN CHOOSE j \in D : \A m \in D : j <= m
       ELSE IF Len(spec) # Len(obs) THEN n + 1 ELSE 0
=============================================================================
