---------------------------- MODULE TraceScanner ----------------------------
(* Conformance of the real scanner with the character-level model (diagnostic: DRIFT, R3).     *)
(* A record carries the input as characters and what Scanner.scan did: the tokens (type, text,  *)
(* line, column), or the ScannerException position, or that the step budget was exhausted.      *)
EXTENDS ScannerData, TLC, Json, IOUtils, Naturals, Sequences, FiniteSets
S == INSTANCE Scanner WITH TableMnemonics <- MnemonicSeqs, NakedMnemonics <- NakedSeqs, Keywords <- KeywordSeqs, SizeEatsNewline <- FALSE
Trace == ndJsonDeserialize(IOEnv.TRACE_FILE)
VARIABLE i
Init == i = 0
Next == i < Len(Trace) /\ i' = i + 1

ModelToks(r) == [j \in 1..Len(r.toks) |-> <<r.toks[j].ty, SubSeq(r.inp, r.toks[j].a + 1, r.toks[j].b), r.toks[j].line, r.toks[j].col>>]
ObsToks(o) == [j \in 1..Len(o) |-> <<o[j][1], o[j][2], o[j][3], o[j][4]>>]
FirstDiff(a, b) == LET n == IF Len(a) < Len(b) THEN Len(a) ELSE Len(b)
                       D == {j \in 1..n : a[j] # b[j]}
                   IN IF D = {} THEN n + 1 ELSE CHOOSE j \in D : \A m \in D : j <= m

Clause(r) ==
    LET m == S!Scan(r.chars, TRUE) IN
    IF m.st = "spin" THEN (IF r.budget_hit THEN "ok" ELSE "model predicts non-termination (" \o m.emsg \o "), the code terminated")
    ELSE IF r.budget_hit THEN "code exhausted its step budget, model terminates"
    ELSE IF m.st = "err"
         THEN (IF r.err.is /\ r.err.line = m.eline /\ r.err.col = m.ecol THEN "ok"
               ELSE "error position: model " \o ToString(<<m.eline, m.ecol, m.emsg>>) \o " code " \o ToString(r.err))
    ELSE IF r.err.is THEN "code raised, model scanned to the end"
    ELSE LET a == ModelToks(m) b == ObsToks(r.toks) IN
         IF a = b THEN "ok" ELSE "token " \o ToString(FirstDiff(a, b)) \o ": model " \o
              ToString(IF FirstDiff(a, b) <= Len(a) THEN a[FirstDiff(a, b)] ELSE <<"none">>) \o " code " \o
              ToString(IF FirstDiff(a, b) <= Len(b) THEN b[FirstDiff(a, b)] ELSE <<"none">>)
Judge == i = 0 \/ LET r == Trace[i] c == Clause(r) IN
                  IF c = "ok" THEN TRUE ELSE PrintT(ToJson([id |-> r.id, clause |-> c]))
=============================================================================
