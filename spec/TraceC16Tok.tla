---------------------------- MODULE TraceC16Tok -----------------------------
(* Design-level link between Layout and Scanner (C16: TokensPreserved): the character-level      *)
(* scanner model gives a re-laid-out variant the same token stream as its base program, up to      *)
(* comments, positions and the letter case of mnemonics, size suffixes, index registers and hex    *)
(* digits.  Records carry the characters of the base and of the variant (no include move).         *)
EXTENDS ScannerData, TLC, Json, IOUtils, Naturals, Sequences, FiniteSets
S == INSTANCE Scanner WITH TableMnemonics <- MnemonicSeqs, NakedMnemonics <- NakedSeqs, Keywords <- KeywordSeqs, SizeEatsNewline <- FALSE
Trace == ndJsonDeserialize(IOEnv.TRACE_FILE)
VARIABLE i
Init == i = 0
Next == i < Len(Trace) /\ i' = i + 1
Fold(q) == [j \in 1..Len(q) |-> S!ToLower(q[j])]
Norm(r) == LET T == SelectSeq(r.toks, LAMBDA t : t.ty # "COMMENT") IN
           [j \in 1..Len(T) |-> <<T[j].ty,
                IF T[j].ty \in {"OPCODE", "OPCODE_NAKED", "OPCODE_SIZE", "ADDRESSING_MODE_INDEX", "NUMBER"}
                THEN Fold(SubSeq(r.inp, T[j].a + 1, T[j].b)) ELSE SubSeq(r.inp, T[j].a + 1, T[j].b)>>]
Clause(r) == LET b == S!Scan(r.base, TRUE) v == S!Scan(r.var, TRUE) IN
             IF b.st # "done" THEN "model rejects the base program"
             ELSE IF v.st # "done" THEN "model rejects the variant: " \o v.emsg
             ELSE IF Norm(b) # Norm(v) THEN "token streams differ in the model" ELSE "ok"
Judge == i = 0 \/ LET r == Trace[i] c == Clause(r) IN
                  IF c = "ok" THEN TRUE ELSE PrintT(ToJson([id |-> r.id, clause |-> c]))
=============================================================================
