----------------------------- MODULE TraceAsm -------------------------------
(* Judge shared by C02, C03, C05, C07, C08, C09, C10: a program (APR) was rendered, assembled  *)
(* by a816 and its observable result logged; Asm!Spec says what the result must be.            *)
(*   spec outcome "ok"     -> assembled, writer image equals the spec's (as ordered             *)
(*                            (offset, byte) pairs: any block split is accepted) and the        *)
(*                            reported labels equal the spec's                                  *)
(*   spec outcome "fail"   -> a816 must report failure                                          *)
(*   spec outcome "either" -> may fail; if it assembles, image and labels must equal the spec's  *)
(*   spec outcome "unspec" -> the statements give the program no meaning: not judged (counted)  *)
EXTENDS Asm, Json, IOUtils

Trace == ndJsonDeserialize(IOEnv.TRACE_FILE)
VARIABLE i
Init == i = 0
Next == i < Len(Trace) /\ i' = i + 1

FlatCall(c) == [j \in 1..Len(c[2]) |-> <<c[1] + j - 1, c[2][j]>>]
Flat(calls) == Flatten([j \in 1..Len(calls) |-> FlatCall(calls[j])])
LabelSet(ls) == {<<ls[j][1], ls[j][2]>> : j \in 1..Len(ls)}

\* first position where two pair sequences differ (for the diagnostic)
FirstDiff(a, b) == LET n == Min(Len(a), Len(b))
                       D == {j \in 1..n : a[j] # b[j]}
                   IN IF D = {} THEN n + 1 ELSE CHOOSE j \in D : \A m \in D : j <= m

Verdict(r) ==
    LET s == Spec(r.prog) IN
    IF s.outcome = "unspec" THEN [c |-> "unspec", d |-> s.why]
    ELSE IF s.outcome = "fail"
         THEN (IF r.obs.ok THEN [c |-> "assembled a program that must fail", d |-> s.why] ELSE [c |-> "ok", d |-> ""])
    ELSE IF ~r.obs.ok THEN (IF s.outcome = "either" THEN [c |-> "ok", d |-> ""] ELSE [c |-> "rejected a valid program", d |-> ""])
    ELSE LET f == Flat(r.obs.calls)
             \* with included patches the writer sees an interleaving of the program's own pairs and the patches'
             \* pairs (disjoint offsets, see Asm!Run): each must be there completely and in its order
             io == {s.ips[j][1] : j \in 1..Len(s.ips)}
             own == IF s.ips = <<>> THEN f ELSE SelectSeq(f, LAMBDA q : q[1] \notin io) IN
         IF s.ips # <<>> /\ SelectSeq(f, LAMBDA q : q[1] \in io) # s.ips
         THEN [c |-> "included patch records not reproduced at offset + delta in order", d |-> ""]
         ELSE IF own # s.img
         THEN [c |-> "image", d |-> "first difference at pair " \o ToString(FirstDiff(own, s.img)) \o
                                     " spec has " \o ToString(Len(s.img)) \o " pairs, observed " \o ToString(Len(f))]
         ELSE IF LabelSet(r.obs.labels) # s.labels
              THEN [c |-> "labels", d |-> ToString((s.labels \ LabelSet(r.obs.labels)) \cup (LabelSet(r.obs.labels) \ s.labels))]
         ELSE [c |-> "ok", d |-> ""]

\* a record may carry an alternative reading of the same source (r.alt): accepted if either reading explains it
VerdictAlt(r) == LET v == Verdict(r) IN
                 IF v.c = "ok" \/ "alt" \notin DOMAIN r THEN v
                 ELSE LET w == Verdict([r EXCEPT !.prog = r.alt]) IN IF w.c = "ok" THEN w ELSE v
Judge == i = 0 \/ LET r == Trace[i] v == VerdictAlt(r) IN
                  IF v.c = "ok" THEN TRUE ELSE PrintT(ToJson([id |-> r.id, clause |-> v.c, detail |-> v.d]))
=============================================================================
