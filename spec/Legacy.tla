------------------------------- MODULE Legacy -------------------------------
(* Legacy conversions (a816/cpu/cpu_65c816.py rom_to_snes / snes_to_rom,                 *)
(* script/formulas.py), stated in closed form and against Bus (C20).                     *)
EXTENDS Bus

Modes == {"low", "low2", "high"}

\* textbook closed forms
RomToSnes(o, mode) ==
    CASE mode = "low"  -> (o \div 32768) * 65536 + 32768 + (o % 32768)
      [] mode = "low2" -> (128 + o \div 32768) * 65536 + 32768 + (o % 32768)
      [] mode = "high" -> 12582912 + o

\* the bus each mode is meant to agree with
ModeBus(mode) == IF mode = "high" THEN HiROM ELSE LoROM

\* The inverse as the statement defines it: the offset whose address this is.
SnesToRom(a) ==
    IF a >= 12582912 THEN a - 12582912
    ELSE IF Bank(a) >= 128 THEN (Bank(a) - 128) * 32768 + (Off(a) % 32768)
    ELSE Bank(a) * 32768 + (Off(a) % 32768)

\* rom_to_snes(o, m) is the address of the matching bus whose mapped offset is o, wherever
\* that bus maps the resulting bank as ROM
AgreesWithBus(o, mode) ==
    LET a == RomToSnes(o, mode) IN
    Class(ModeBus(mode), a) = "rom" => Physical(ModeBus(mode), a) = o

\* round trip; the second LoROM variant only below 0x200000 (its banks 0xC0.. coincide with HiROM's)
RoundTripApplies(o, mode) == mode # "low2" \/ o < 2097152
RoundTrip(o, mode) == RoundTripApplies(o, mode) => SnesToRom(RomToSnes(o, mode)) = o

\* pointer formulas
LongLowRomPointer(base, p) == LE(RomToSnes(base + p, "low"), 3)
BaseRelative16(base, lo, hi) == lo + 256 * hi + base
=============================================================================
