--------------------------------- MODULE Ips --------------------------------
(* The IPS patch format (C11 writer, C13 reader).                                         *)
(*   file   = "PATCH" record* marker                                                      *)
(*   record = off(3, big endian) len(2) data(len)   |   off(3) 0(2) run(2) value(1)        *)
(*   marker = the 3 bytes "EOF"; a reader stops at the first offset field equal to it, so   *)
(*            no record may start at address EofAddr (0x454F46).                            *)
(* Everything is parameterised by K = [maxrec, hdr, eof, limit] so that the same operators  *)
(* serve the scaled model-checking instance and the real constants.                         *)
EXTENDS Util

RealK == [maxrec |-> 65535, hdr |-> 512, eof |-> 4542278, limit |-> 16777216]
Magic == <<80, 65, 84, 67, 72>>                      \* "PATCH"
Marker(K) == BE(K.eof, 3)

Rep(v, n) == [j \in 1..n |-> v]

\* ---- the reference reader: bytes -> [ok, recs, used] ----------------------------------
\* recs: sequence of [off, data, rle]; used: number of bytes consumed including the marker
RECURSIVE ReadRecs(_, _, _, _)
ReadRecs(f, p, K, acc) ==
    IF p + 2 > Len(f) THEN [ok |-> FALSE, why |-> "truncated before marker", recs |-> acc, used |-> p - 1]
    ELSE IF SubSeq(f, p, p + 2) = Marker(K) THEN [ok |-> TRUE, why |-> "", recs |-> acc, used |-> p + 2]
    ELSE IF p + 4 > Len(f) THEN [ok |-> FALSE, why |-> "truncated record header", recs |-> acc, used |-> p - 1]
    ELSE LET off == FromBE(SubSeq(f, p, p + 2))
             len == FromBE(SubSeq(f, p + 3, p + 4))
         IN IF len > 0
            THEN IF p + 4 + len > Len(f) THEN [ok |-> FALSE, why |-> "truncated record data", recs |-> acc, used |-> p - 1]
                 ELSE ReadRecs(f, p + 5 + len, K, Append(acc, [off |-> off, data |-> SubSeq(f, p + 5, p + 4 + len), rle |-> FALSE]))
            ELSE IF p + 7 > Len(f) THEN [ok |-> FALSE, why |-> "truncated run-length record", recs |-> acc, used |-> p - 1]
                 ELSE LET run == FromBE(SubSeq(f, p + 5, p + 6)) IN
                      ReadRecs(f, p + 8, K, Append(acc, [off |-> off, data |-> Rep(f[p + 7], run), rle |-> TRUE]))

Read(f, K) == IF Len(f) < 5 \/ SubSeq(f, 1, 5) # Magic
              THEN [ok |-> FALSE, why |-> "missing PATCH header", recs |-> <<>>, used |-> 0]
              ELSE ReadRecs(f, 6, K, <<>>)

\* a file is well formed when the reader accepts it and the marker is its last three bytes
WellFormed(f, K) == LET r == Read(f, K) IN r.ok /\ r.used = Len(f)

\* ---- the reference encoder (used to build inputs for the reader, C13) ------------------
EncodeRec(r) == IF r.rle THEN BE(r.off, 3) \o <<0, 0>> \o BE(Len(r.data), 2) \o <<r.data[1]>>
                ELSE BE(r.off, 3) \o BE(Len(r.data), 2) \o r.data
Encode(recs, K) == Magic \o Flatten([j \in 1..Len(recs) |-> EncodeRec(recs[j])]) \o Marker(K)

\* ---- applying a patch -------------------------------------------------------------------
\* an image is a function from a finite set of offsets to bytes; later writes win
WriteAt(img, off, data) == [o \in DOMAIN img \cup {off + j - 1 : j \in 1..Len(data)} |->
                               IF o >= off /\ o < off + Len(data) THEN data[o - off + 1] ELSE img[o]]
RECURSIVE ApplyFrom(_, _, _)
ApplyFrom(recs, j, img) == IF j > Len(recs) THEN img ELSE ApplyFrom(recs, j + 1, WriteAt(img, recs[j].off, recs[j].data))
Apply(recs) == ApplyFrom(recs, 1, << >>)

\* ---- what a write history must produce (C11) --------------------------------------------
\* a write is [addr, data]; with the copier header every address is shifted by K.hdr
Shift(K, header) == IF header THEN K.hdr ELSE 0
Representable(w, K, header) ==
    LET a == w.addr + Shift(K, header) IN
    Len(w.data) = 0 \/ (a >= 0 /\ a + Len(w.data) <= K.limit)
\* a block that covers EofAddr beyond its first byte can be split around it; one that starts
\* there cannot be written at all
StartsAtMarker(w, K, header) == Len(w.data) > 0 /\ w.addr + Shift(K, header) = K.eof

\* Records cover the written blocks exactly once and in write order: walking records and writes together,
\* (j, m) = current record and bytes of it already matched, (w, k) = current write and bytes of it already covered.
\* A record may end inside a block (a split) and may run on into the next block when that block starts exactly
\* where the previous one ended (adjacent writes merged into one record): the bytes a patcher writes, and their
\* order, are the same.
RECURSIVE Tiles2(_, _, _, _, _, _, _)
Tiles2(recs, j, m, writes, w, k, sh) ==
    IF w > Len(writes) THEN (j > Len(recs) \/ (j = Len(recs) /\ m = Len(recs[j].data)))
    ELSE IF k = Len(writes[w].data) THEN Tiles2(recs, j, m, writes, w + 1, 0, sh)      \* block done (or empty)
    ELSE IF j > Len(recs) THEN FALSE
    ELSE IF m = Len(recs[j].data) THEN (m > 0 /\ Tiles2(recs, j + 1, 0, writes, w, k, sh))
    ELSE LET r == recs[j]
             n == Min(Len(r.data) - m, Len(writes[w].data) - k) IN
         /\ r.off + m = writes[w].addr + sh + k
         /\ SubSeq(r.data, m + 1, m + n) = SubSeq(writes[w].data, k + 1, k + n)
         /\ Tiles2(recs, j, m + n, writes, w, k + n, sh)
Tiles(recs, j, writes, w, k, sh) == Tiles2(recs, j, 0, writes, w, k, sh)

RecordsValid(recs, K) == \A j \in 1..Len(recs) : Len(recs[j].data) \in 1..K.maxrec /\ recs[j].off # K.eof

\* The verdict on a produced file for a history of accepted writes
FileClause(f, writes, K, header) ==
    LET r == Read(f, K) IN
    IF ~r.ok THEN "file is not a well-formed IPS patch: " \o r.why
    ELSE IF r.used # Len(f) THEN "bytes after the EOF marker (a record offset reads as EOF)"
    ELSE IF ~RecordsValid(r.recs, K) THEN "record with illegal length or at the EOF address"
    ELSE IF ~Tiles(r.recs, 1, writes, 1, 0, Shift(K, header)) THEN "records do not tile the written blocks exactly once in order"
    ELSE "ok"

\* ---- the writer as specified (what the model checker explores) -------------------------
\* split a block into chunks of at most maxrec bytes; never start a chunk at the marker address:
\* the chunk before it is cut one byte short.  SplitAt / AvoidMarker are the spec-mutant knobs.
RECURSIVE Chunks(_, _, _, _, _)
Chunks(addr, data, K, splitAt, avoid) ==
    IF data = <<>> THEN <<>>
    ELSE LET n0 == Min(splitAt, Len(data))
             n == IF avoid /\ addr + n0 = K.eof /\ n0 < Len(data) /\ n0 > 1 THEN n0 - 1 ELSE n0
         IN <<[off |-> addr, data |-> SubSeq(data, 1, n), rle |-> FALSE]>>
            \o Chunks(addr + n, SubSeq(data, n + 1, Len(data)), K, splitAt, avoid)

\* result of writing one block: [refused, recs]
WriteBlock(w, K, header, splitAt, avoid) ==
    LET a == w.addr + Shift(K, header) IN
    IF Len(w.data) = 0 THEN [refused |-> FALSE, recs |-> <<>>]
    ELSE IF ~Representable(w, K, header) \/ (avoid /\ a = K.eof) THEN [refused |-> TRUE, recs |-> <<>>]
    ELSE [refused |-> FALSE, recs |-> Chunks(a, w.data, K, splitAt, avoid)]
=============================================================================
