------------------------------- MODULE BusApa -------------------------------
(* Adjunct (not relied upon by any check): the advance law of C04 for ARBITRARY single ROM      *)
(* declarations, checked symbolically by Apalache (bounded model checking, length 0: the law    *)
(* is a state predicate over unconstrained integers).  Restates Physical/Advance of Bus.tla     *)
(* for one declaration with primary range b0..b1, window lo..lo+size-1, size in {32K, 64K}.     *)
EXTENDS Integers

VARIABLES
    \* @type: Int;
    b0,
    \* @type: Int;
    b1,
    \* @type: Int;
    lo,
    \* @type: Bool;
    big,
    \* @type: Int;
    a,
    \* @type: Int;
    n,
    \* @type: Int;
    m

Size == IF big THEN 65536 ELSE 32768
Bank(x) == x \div 65536
Off(x) == x % 65536
InWin(x) == Bank(x) >= b0 /\ Bank(x) <= b1 /\ Off(x) >= lo /\ Off(x) < lo + Size
Phys(x) == (Bank(x) - b0) * Size + (Off(x) - lo)
Log(p) == (b0 + (IF big THEN p \div 65536 ELSE p \div 32768)) * 65536 + lo + (IF big THEN p % 65536 ELSE p % 32768)
Adv(x, k) == Log(Phys(x) + k)
Defined(x, k) == b0 + (IF big THEN (Phys(x) + k) \div 65536 ELSE (Phys(x) + k) \div 32768) <= b1

Init == /\ b0 \in 0..255 /\ b1 \in 0..255 /\ b0 <= b1
        /\ big \in BOOLEAN
        /\ lo \in {0, 32768} /\ (big => lo = 0)
        /\ a \in 0..16777215 /\ n \in 0..131072 /\ m \in 0..131072
Next == UNCHANGED <<b0, b1, lo, big, a, n, m>>

Law == (InWin(a) /\ Defined(a, n + m)) =>
          /\ InWin(Adv(a, n))
          /\ Phys(Adv(a, n)) = Phys(a) + n
          /\ Adv(a, 0) = a
          /\ Adv(Adv(a, n), m) = Adv(a, n + m)
=============================================================================
