---------------------------- MODULE TracePointers ---------------------------
(* Judge of the script-dumping layer: the real Script / write_* functions were run on a case.     *)
EXTENDS Pointers, TLC, Json, IOUtils
Trace == ndJsonDeserialize(IOEnv.TRACE_FILE)
VARIABLE i
Init == i = 0
Next == i < Len(Trace) /\ i' = i + 1
LE16(v) == <<v % 256, (v \div 256) % 256>>
Dec16(bs) == bs[1] + 256 * bs[2]
Clause(r) ==
    LET cs == Contents(r.rom, r.ps, r.e)
        byid == ById(cs) IN
    IF r.obs.err # "" THEN "the helpers raised: " \o r.obs.err
    ELSE IF r.obs.values # [j \in 1..Len(byid) |-> byid[j].value] THEN "texts differ from the ROM cut at the pointer addresses"
    ELSE IF r.obs.values_bin # ValuesBinary(cs) THEN "written texts are not the texts in id order"
    ELSE IF r.obs.addr_bin # AddressesBinary(cs, LE16) THEN "written offsets are not the running text lengths"
    ELSE IF r.obs.table_read # [j \in 1..Len(r.ps) |-> r.ps[j].addr + r.base] THEN "pointer table not decoded as 16-bit little-endian + base"
    ELSE "ok"
Judge == i = 0 \/ LET r == Trace[i] c == Clause(r) IN
                  IF c = "ok" THEN TRUE ELSE PrintT(ToJson([id |-> r.id, clause |-> c]))
=============================================================================
