----------------------------- MODULE TraceC06 -------------------------------
(* Judge for C06: one record = one expression text evaluated by a816 in one context.        *)
(* The record carries the token string (numbers as Wide limbs), the symbol environment,     *)
(* the context and what a816 produced; the verdict is GrammarValue from Expr.               *)
EXTENDS Expr, TLC, Json, IOUtils

Trace == ndJsonDeserialize(IOEnv.TRACE_FILE)
VARIABLE i
Init == i = 0
Next == i < Len(Trace) /\ i' = i + 1

Width(ctx) == CASE ctx = "imm16" -> 2 [] ctx = "db" -> 1 [] ctx = "dw" -> 2 [] OTHER -> 3

Clause(r) ==
    LET e == GrammarValue(r.toks, r.env) IN
    IF e.u THEN "ok"                                   \* the statement gives this text no value
    ELSE CASE r.ctx = "eval" ->
                 IF r.obs.ok /\ r.obs.val = e.v THEN "ok" ELSE "eval_expression_str value"
           [] r.ctx \in {"imm16", "dl", "dw", "db", "sym", "assign", "macro", "macro2", "deep", "pointer"} ->
                 IF r.obs.ok /\ r.obs.bytes = LowBytes(e.v, Width(r.ctx)) THEN "ok" ELSE "bytes in context " \o r.ctx
           [] r.ctx = "long24" ->
                 \* `lda.l e`: a value that does not fit 24 bits may be refused instead of truncated (C01)
                 IF IsNeg(e.v) THEN "ok"
                 ELSE IF r.obs.ok THEN (IF r.obs.bytes = LowBytes(e.v, 3) THEN "ok" ELSE "bytes in context long24")
                 ELSE IF BitLen(e.v) > 24 THEN "ok" ELSE "rejected in context long24"
           [] r.ctx = "dirauto" ->
                 \* `lda e` without a suffix: the operand takes the smallest of 1..3 bytes that holds the value (C01);
                 \* negative values and values beyond 24 bits are outside the statements
                 IF IsNeg(e.v) \/ BitLen(e.v) > 24 THEN "ok"
                 ELSE LET w == IF BitLen(e.v) <= 8 THEN 1 ELSE IF BitLen(e.v) <= 16 THEN 2 ELSE 3 IN
                      IF r.obs.ok /\ r.obs.bytes = LowBytes(e.v, w) THEN "ok" ELSE "operand bytes in context dirauto"
           [] r.ctx = "if" ->
                 IF r.obs.ok /\ r.obs.bytes = <<IF e.v = Zero THEN 0 ELSE 1>> THEN "ok" ELSE "truth value in .if"
           [] r.ctx = "for" ->
                 IF IsNeg(e.v) \/ e.v = Zero THEN (IF r.obs.ok /\ r.obs.bytes = <<>> THEN "ok" ELSE "empty .for range")
                 ELSE IF IsSmall(e.v) /\ ToSmall(e.v) <= 32
                      THEN (IF r.obs.ok /\ r.obs.bytes = [j \in 1..ToSmall(e.v) |-> j - 1] THEN "ok" ELSE ".for bound")
                      ELSE "ok"

Judge == i = 0 \/ LET r == Trace[i] c == Clause(r) IN
                  IF c = "ok" THEN TRUE ELSE PrintT(ToJson([id |-> r.id, clause |-> c]))
=============================================================================
