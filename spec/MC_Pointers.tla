----------------------------- MODULE MC_Pointers ----------------------------
(* All ROMs of RomLen bytes over two byte values, all tables of <= 3 pointers with distinct       *)
(* addresses in the ROM, all end addresses: the laws of Pointers hold.  Emit streams the cases.   *)
EXTENDS Pointers, TLC, Json, IOUtils, FiniteSets
RomLen == 5
EmitOn == IOEnv.EMIT = "1"
VARIABLE c
Init == c = <<>>
Roms == [1..RomLen -> {7, 9}]
Next == c = <<>> /\ \E rom \in Roms, n \in 1..3 :
          \E addrs \in [1..n -> 0..(RomLen - 1)] :
            \E e \in 0..RomLen :
              /\ \A i, j \in 1..n : i # j => addrs[i] # addrs[j]
              /\ \A i \in 1..n : addrs[i] <= e
              /\ (rom[1] = 7 \/ n = 3)                      \* prune symmetric ROMs a little
              /\ c' = [rom |-> rom, ps |-> [j \in 1..n |-> [id |-> j - 1, addr |-> addrs[j]]], e |-> e]
Laws == c = <<>> \/ (PartitionLaw(c.rom, c.ps, c.e) /\ RoundTripLaw(c.rom, c.ps, c.e))
Emit == (EmitOn /\ c # <<>>) => PrintT(ToJson(c))
=============================================================================
