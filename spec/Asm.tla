--------------------------------- MODULE Asm --------------------------------
(* The assembler core (a816/parse/codegen.py, a816/program.py, a816/parse/nodes.py,          *)
(* a816/symbols.py) as a machine over an abstract program (APR, a JSON tree):                *)
(*   expansion  AST -> node list + scope tree + T0 definitions   (code_gen)                   *)
(*   label pass   addresses and sizes, labels defined             (Program.resolve_labels #1)  *)
(*   symbol pass  `=` definitions and deferred macro arguments    (Program.resolve_labels #2)  *)
(*   emission     bytes, storage offsets, writer image            (Program.emit)               *)
(* One step operator per pass (StepLabel / StepSymbol / StepEmit) applied to one node; the     *)
(* stepwise instance applies one per TLC state, the folded instance folds them.                *)
(*                                                                                              *)
(* Deliberate deviations from the pinned code are parameters of Run:                           *)
(*   callSite  = TRUE  macro arguments are evaluated in the caller's scope (C09)                *)
(*   phaseCheck = TRUE a size that differs between label pass and emission is a failure (C02)   *)
EXTENDS Bus, Instr, IsaSupported, TLC, Bitwise
Tbl == INSTANCE Table      \* character tables (.table / .text)

\* ---- results of evaluation ---------------------------------------------------------------
EV(v) == [ok |-> TRUE, v |-> v]
ENone == [ok |-> FALSE, v |-> 0]

Root == 1
\* scopes: sequence of [parent, kind, name]; kind in root | block | named | macro | loop
\* defs:   function <<sid, name>> -> [v, t, lab]   (t = binding time 0..2, lab = counts as a label)

RECURSIVE Lookup(_, _, _, _)
Lookup(n, sid, scopes, defs) ==
    IF <<sid, n>> \in DOMAIN defs THEN EV(defs[<<sid, n>>].v)
    ELSE IF sid = Root THEN ENone ELSE Lookup(n, scopes[sid].parent, scopes, defs)

Pow2Small(k) == 2 ^ k
BinVal(o, a, b) ==
    CASE o = "+" -> EV(a + b) [] o = "-" -> EV(a - b)
      [] o = "*" -> IF a < 32768 /\ b < 32768 /\ a > -32768 /\ b > -32768 THEN EV(a * b) ELSE ENone
      [] o = "<<" -> IF b >= 0 /\ b <= 16 /\ a >= 0 /\ a < 16384 THEN EV(a * Pow2Small(b)) ELSE ENone
      [] o = ">>" -> IF b >= 0 /\ b <= 30 /\ a >= 0 THEN EV(a \div Pow2Small(b)) ELSE ENone
      [] o = "&" -> IF a >= 0 /\ b >= 0 THEN EV(a & b) ELSE ENone
      [] o = "|" -> IF a >= 0 /\ b >= 0 THEN EV(a | b) ELSE ENone
      [] OTHER -> ENone

\* Evaluate expression tree e in scope sid.  ok = FALSE when a name is undefined (or the value
\* leaves the range this module computes in: the generators never do that).
RECURSIVE Eval(_, _, _, _)
Eval(e, sid, scopes, defs) ==
    CASE e.k = "num" -> EV(e.v)
      \* a literal beyond 31 bits, (hi * 2^24 + lo), negated if neg: TLC integers cannot hold it, and only its
      \* residue mod 2^24 matters where the generators use it (data directives, at most 3 bytes)
      [] e.k = "big" -> EV(IF e.neg THEN (0 - e.lo) % 16777216 ELSE e.lo)
      [] e.k = "id"  -> Lookup(e.n, sid, scopes, defs)
      [] e.k = "un"  -> LET a == Eval(e.e, sid, scopes, defs) IN IF a.ok THEN EV(0 - a.v) ELSE ENone
      [] e.k = "bin" -> LET a == Eval(e.l, sid, scopes, defs) b == Eval(e.r, sid, scopes, defs) IN
                        IF a.ok /\ b.ok THEN BinVal(e.o, a.v, b.v) ELSE ENone

\* define name n in scope sid; a named scope also exports it to its parent as scopename.n
Define(defs, scopes, sid, n, v, t, lab) ==
    LET d1 == (<<sid, n>> :> [v |-> v, t |-> t, lab |-> lab]) @@ defs IN
    IF scopes[sid].kind = "named"
    THEN (<<scopes[sid].parent, scopes[sid].name \o "." \o n>> :> [v |-> v, t |-> t, lab |-> FALSE]) @@ d1
    ELSE d1

\* ---- expansion ---------------------------------------------------------------------------
\* X: [nodes, scopes, defs, codes, macros, decls, fail, why]
XInit(defines) ==
    [nodes |-> <<>>, scopes |-> <<[parent |-> 0, kind |-> "root", name |-> ""]>>,
     defs |-> [p \in {<<Root, defines[j].n>> : j \in 1..Len(defines)} |->
                 [v |-> (CHOOSE d \in Range(defines) : d.n = p[2]).v, t |-> 0, lab |-> FALSE]],
     codes |-> << >>, macros |-> << >>, decls |-> <<>>, fail |-> FALSE, unspec |-> FALSE, why |-> "", depth |-> 0,
     tabs |-> << >>]      \* tabs: scope id -> index of the table loaded in that scope (prog.tables)

XFail(X, why) == [X EXCEPT !.fail = TRUE, !.why = why]
\* re-definition of a name within one scope is outside the statements
XUnspec(X, why) == IF X.unspec THEN X ELSE [X EXCEPT !.unspec = TRUE, !.why = why]
XNode(X, node) == [X EXCEPT !.nodes = Append(@, node)]
NewScope(X, parent, kind, name) == [X EXCEPT !.scopes = Append(@, [parent |-> parent, kind |-> kind, name |-> name])]

RECURSIVE FindCode(_, _, _, _)
FindCode(p, sid, scopes, codes) ==
    IF <<sid, p>> \in DOMAIN codes THEN [ok |-> TRUE, b |-> codes[<<sid, p>>]]
    ELSE IF sid = Root THEN [ok |-> FALSE, b |-> <<>>] ELSE FindCode(p, scopes[sid].parent, scopes, codes)

\* the table in force in scope sid: the nearest scope of the chain that loaded one (0 = none)
RECURSIVE TableFor(_, _, _)
TableFor(sid, scopes, tabs) == IF sid \in DOMAIN tabs THEN tabs[sid] ELSE IF sid = Root THEN 0 ELSE TableFor(scopes[sid].parent, scopes, tabs)

RECURSIVE XStmts(_, _, _, _), XStmt(_, _, _, _), XArgs(_, _, _, _, _, _, _), XLoop(_, _, _, _, _, _)
XStmts(ss, sid, X, callSite) ==
    IF ss = <<>> \/ X.fail THEN X ELSE XStmts(Tail(ss), sid, XStmt(Head(ss), sid, X, callSite), callSite)

\* bind macro parameters ps[j..] to arguments as[j..] in application scope app, called from scope sid
XArgs(ps, as, j, app, sid, X, callSite) ==
    IF j > Len(ps) \/ X.fail THEN X
    ELSE LET a == as[j] IN
         IF a.k = "code" THEN XArgs(ps, as, j + 1, app, sid, [X EXCEPT !.codes = (<<app, ps[j]>> :> a.b) @@ @], callSite)
         ELSE LET esid == IF callSite THEN sid ELSE app
                  v == Eval(a, esid, X.scopes, X.defs) IN
              IF v.ok THEN XArgs(ps, as, j + 1, app, sid, [X EXCEPT !.defs = Define(@, X.scopes, app, ps[j], v.v, 0, FALSE)], callSite)
              ELSE XArgs(ps, as, j + 1, app, sid, XNode(X, [k |-> "darg", sid |-> app, n |-> ps[j], e |-> a, esid |-> esid]), callSite)

XLoop(s, k, hi, sid, X, callSite) ==
    IF k >= hi \/ X.fail THEN X
    ELSE LET X1 == NewScope(X, sid, "loop", "")
             it == Len(X1.scopes)
             X2 == XNode(XNode(X1, [k |-> "enter", sid |-> it]), [k |-> "def", sid |-> it, n |-> s.v, e |-> [k |-> "num", v |-> k], esid |-> it])
             X3 == XStmts(s.body, it, X2, callSite)
         IN XLoop(s, k + 1, hi, sid, XNode(X3, [k |-> "exit", sid |-> it]), callSite)

XStmt(s, sid, X, callSite) ==
    CASE s.k = "label"  -> XNode(X, [k |-> "label", sid |-> sid, n |-> s.n])
      [] s.k = "sym"    -> XNode(X, [k |-> "def", sid |-> sid, n |-> s.n, e |-> s.e, esid |-> sid])
      [] s.k = "assign" -> LET v == Eval(s.e, sid, X.scopes, X.defs) IN
                           IF <<sid, s.n>> \in DOMAIN X.defs THEN XUnspec(X, "name redefined in one scope")
                           ELSE IF v.ok THEN [X EXCEPT !.defs = Define(@, X.scopes, sid, s.n, v.v, 0, FALSE)]
                           ELSE XFail(X, ":= of an undefined name")
      [] s.k = "op"     -> XNode(X, [k |-> "op", sid |-> sid, mn |-> s.mn, shape |-> s.shape, sfx |-> s.sfx, e |-> s.e])
      [] s.k = "branch" -> XNode(X, [k |-> "branch", sid |-> sid, mn |-> s.mn, e |-> s.e])
      [] s.k = "data"   -> [X EXCEPT !.nodes = @ \o [j \in 1..Len(s.es) |-> [k |-> "data", sid |-> sid, d |-> s.d, e |-> s.es[j]]]]
      [] s.k = "ascii"  -> XNode(X, [k |-> "bytes", sid |-> sid, bs |-> s.s])
      [] s.k = "incbin" -> XNode(X, [k |-> "incbin", sid |-> sid, sym |-> s.sym, bs |-> s.bs])
      [] s.k = "stareq" -> XNode(X, [k |-> "stareq", sid |-> sid, e |-> s.e])
      [] s.k = "ateq"   -> XNode(X, [k |-> "ateq", sid |-> sid, e |-> s.e])
      [] s.k = "map"    -> [X EXCEPT !.decls = Append(@, s.decl)]
      \* .table loads a table into the current scope at expansion time; .text captures the table in force there
      [] s.k = "table"  -> [X EXCEPT !.tabs = (sid :> s.t) @@ @]
      \* .include_ips reads the patch and evaluates its delta where the directive stands (expansion time)
      [] s.k = "ips"    -> LET v == Eval(s.delta, sid, X.scopes, X.defs) IN
                           IF ~v.ok THEN XUnspec(X, "patch delta over a name not defined at the directive")
                           ELSE XNode(X, [k |-> "ips", sid |-> sid, recs |-> s.recs, delta |-> v.v])
      [] s.k = "text"   -> XNode(X, [k |-> "text", sid |-> sid, tbl |-> TableFor(sid, X.scopes, X.tabs), s |-> s.s])
      [] s.k \in {"block", "scope"} ->
            LET X1 == NewScope(X, sid, IF s.k = "scope" THEN "named" ELSE "block", IF s.k = "scope" THEN s.n ELSE "")
                b == Len(X1.scopes)
                X2 == XStmts(s.b, b, XNode(X1, [k |-> "enter", sid |-> b]), callSite)
            IN XNode(X2, [k |-> "exit", sid |-> b])
      [] s.k = "include" -> XStmts(s.b, sid, X, callSite)
      [] s.k = "macro"  -> [X EXCEPT !.macros = (s.n :> [ps |-> s.ps, b |-> s.b]) @@ @]
      [] s.k = "apply"  ->
            IF s.n \notin DOMAIN X.macros THEN XFail(X, "undefined macro")
            ELSE LET m == X.macros[s.n] IN
                 IF Len(s.as) < Len(m.ps) THEN XFail(X, "too few macro arguments")
                 \* a macro that applies itself without a terminating condition never finishes expanding
                 ELSE IF X.depth > 12 THEN XFail(X, "runaway macro recursion")
                 ELSE LET X1 == NewScope([X EXCEPT !.depth = @ + 1], sid, "macro", "")
                          app == Len(X1.scopes)
                          X2 == XArgs(m.ps, s.as, 1, app, sid, XNode(X1, [k |-> "enter", sid |-> app]), callSite)
                          X3 == XStmts(m.b, app, X2, callSite)
                      IN [XNode(X3, [k |-> "exit", sid |-> app]) EXCEPT !.depth = X.depth]
      [] s.k = "splice" -> LET c == FindCode(s.p, sid, X.scopes, X.codes) IN
                           IF c.ok THEN XStmts(c.b, sid, X, callSite) ELSE XFail(X, "spliced name is not a code block")
      [] s.k = "if"     -> LET c == Eval(s.e, sid, X.scopes, X.defs) IN
                           IF c.ok /\ c.v # 0 THEN XStmts(s.t, sid, X, callSite)
                           ELSE IF s.hasf THEN XStmts(s.f, sid, X, callSite) ELSE X
      [] s.k = "for"    -> LET a == Eval(s.a, sid, X.scopes, X.defs) b == Eval(s.b, sid, X.scopes, X.defs) IN
                           IF a.ok /\ b.ok THEN XLoop(s, a.v, b.v, sid, X, callSite) ELSE XFail(X, ".for bound undefined")

Expand(prog, callSite) == XStmts(prog.body, Root, XInit(prog.defines), callSite)

\* ---- the passes --------------------------------------------------------------------------
BusFor(prog, X) == IF X.decls # <<>> THEN X.decls ELSE IF prog.rom = "high" THEN HiROM ELSE LoROM

\* P: the pass state.  run = -1 before the first *=.  img: sequence of <<offset, byte>>.
Dead(P) == P.fail \/ P.unspec
\* at / offs / rel: run address, storage offset and relocation flag seen by each node of the current pass
PInit(X) == [run |-> -1, off |-> -1, defs |-> X.defs, fail |-> FALSE, unspec |-> X.unspec, why |-> X.why,
             img |-> <<>>, pred |-> <<>>, reloc |-> FALSE, at |-> <<>>, at1 |-> <<>>, offs |-> <<>>, rel |-> <<>>, drift |-> FALSE, ramstar |-> FALSE, sawat |-> FALSE,
             ips |-> <<>>]     \* ips: <<offset, byte>> pairs re-emitted from included patches, in order (C13)
Note(P) == IF Dead(P) THEN P ELSE [P EXCEPT !.at = Append(@, P.run), !.offs = Append(@, P.off), !.rel = Append(@, P.reloc)]
PFail(P, why) == IF P.fail \/ P.unspec THEN P ELSE [P EXCEPT !.fail = TRUE, !.why = why]
PUnspec(P, why) == IF P.fail \/ P.unspec THEN P ELSE [P EXCEPT !.unspec = TRUE, !.why = why]

\* advance the run address by n bytes (n >= 0)
Adv(bus, P, n) ==
    IF n = 0 THEN P
    ELSE IF P.run < 0 THEN PUnspec(P, "bytes before any *=")
    ELSE IF Class(bus, P.run) \in {"rom", "ram"} /\ AdvanceDefined(bus, P.run, n)
         THEN [P EXCEPT !.run = Advance(bus, P.run, n)]
         ELSE PUnspec(P, "code runs out of the mapped range")

DataWidth(d) == CASE d = "db" -> 1 [] d = "dw" -> 2 [] OTHER -> 3

\* width of an instruction operand as seen with the definitions in `defs` (0 for implied);
\* -1: the operand cannot be evaluated, -2: no width of 1..3 bytes holds it / negative
OpWidth(node, scopes, defs) ==
    IF node.shape = "imp" THEN 0
    ELSE IF node.sfx # "" THEN SfxWidth(node.sfx)
    ELSE LET v == Eval(node.e, node.sid, scopes, defs) IN
         IF ~v.ok THEN -1 ELSE IF v.v < 0 \/ MinWidth(v.v) = 0 THEN -2 ELSE MinWidth(v.v)

\* target of a position move
MoveTarget(node, scopes, defs) == Eval(node.e, node.sid, scopes, defs)

\* size of a node in the label pass (Dead states pass through)
StepLabel(node, scopes, bus, P, tables) ==
    IF Dead(P) THEN P ELSE
    CASE node.k = "label" -> IF <<node.sid, node.n>> \in DOMAIN P.defs THEN PUnspec(P, "name redefined in one scope")
                             ELSE IF P.run < 0 THEN PUnspec(P, "label before any *=")
                             ELSE [P EXCEPT !.defs = Define(@, scopes, node.sid, node.n, P.run, 1, TRUE), !.pred = Append(@, 0)]
      [] node.k \in {"def", "darg", "enter", "exit", "ips"} -> [P EXCEPT !.pred = Append(@, 0)]
      [] node.k = "op" -> LET w == OpWidth(node, scopes, P.defs) IN
                          IF w = -1 THEN PUnspec(P, "operand width needs a name not yet visible in the label pass")
                          ELSE IF w = -2 THEN PUnspec(P, "operand without suffix negative or wider than 3 bytes")
                          ELSE IF ~IsaDefined(node.mn, node.shape, w) THEN PFail(P, "instruction not defined by the ISA")
                          ELSE IF <<node.mn, node.shape, w>> \notin Supported THEN PUnspec(P, "ISA-defined but not in the supported set")
                          ELSE [Adv(bus, P, 1 + w) EXCEPT !.pred = Append(@, 1 + w)]
      [] node.k = "branch" -> [Adv(bus, P, 2) EXCEPT !.pred = Append(@, 2)]
      [] node.k = "data"   -> [Adv(bus, P, DataWidth(node.d)) EXCEPT !.pred = Append(@, DataWidth(node.d))]
      [] node.k = "bytes"  -> [Adv(bus, P, Len(node.bs)) EXCEPT !.pred = Append(@, Len(node.bs))]
      [] node.k = "text"   -> IF node.tbl = 0 THEN PFail(P, ".text without a table in force")
                              ELSE LET n == Len(Tbl!Encode(tables[node.tbl], node.s)) IN [Adv(bus, P, n) EXCEPT !.pred = Append(@, n)]
      [] node.k = "incbin" -> IF <<node.sid, node.sym>> \in DOMAIN P.defs THEN PUnspec(P, "name redefined in one scope")
                              ELSE IF P.run < 0 THEN PUnspec(P, "incbin before any *=")
                              ELSE LET d1 == Define(P.defs, scopes, node.sid, node.sym, P.run, 1, TRUE)
                                       d2 == Define(d1, scopes, node.sid, node.sym \o "__size", Len(node.bs), 1, FALSE)
                                   IN [Adv(bus, [P EXCEPT !.defs = d2], Len(node.bs)) EXCEPT !.pred = Append(@, Len(node.bs))]
      [] node.k \in {"stareq", "ateq"} ->
            LET t == MoveTarget(node, scopes, P.defs) IN
            IF ~t.ok THEN PUnspec(P, "position move over a name not visible in the label pass")
            ELSE IF t.v < 0 \/ t.v > 16777215 THEN PUnspec(P, "position outside 24 bits")
            ELSE IF Class(bus, t.v) = "none" THEN PFail(P, "position in an unmapped bank")
            ELSE IF Class(bus, t.v) = "oow" THEN PUnspec(P, "position in a ROM bank outside its window")
            \* a *= whose target has no storage offset (RAM): the statements give it no offset to move to.  After an
            \* earlier position the only reading that writes "no other offset" keeps the storage offset (the bytes follow
            \* the previous ones, assembled for the RAM address, as under @=); refusing is allowed too (outcome "either")
            ELSE IF node.k = "stareq" /\ Class(bus, t.v) = "ram"
                 THEN IF P.run < 0 THEN PUnspec(P, "*= to RAM before any other position")
                      \* after an @= the pinned tree resumes storing at the offset of the @= target: no statement describes that
                      ELSE IF P.sawat THEN PUnspec(P, "*= to RAM after an @=")
                      ELSE [P EXCEPT !.run = t.v, !.pred = Append(@, 0), !.ramstar = TRUE]
            ELSE [P EXCEPT !.run = t.v, !.pred = Append(@, 0), !.sawat = (node.k = "ateq")]

\* the symbol pass: `=` definitions and deferred macro arguments, in node order
StepSymbol(node, scopes, bus, P) ==
    IF Dead(P) THEN P ELSE
    IF node.k \in {"def", "darg"}
    THEN LET v == Eval(node.e, node.esid, scopes, P.defs) IN
         IF <<node.sid, node.n>> \in DOMAIN P.defs THEN PUnspec(P, "name redefined in one scope")
         ELSE IF v.ok THEN [P EXCEPT !.defs = Define(@, scopes, node.sid, node.n, v.v, 2, FALSE)]
         ELSE PFail(P, "`=` over a name that is not defined (yet) in the symbol pass")
    ELSE P

\* ---- emission ----------------------------------------------------------------------------
PutBytes(bus, P, bs) ==
    IF bs = <<>> THEN P
    ELSE IF P.off < 0 THEN PUnspec(P, "bytes before any *=")
    ELSE LET Q == Adv(bus, P, Len(bs)) IN
         IF Dead(Q) THEN Q
         ELSE [Q EXCEPT !.img = @ \o [j \in 1..Len(bs) |-> <<P.off + j - 1, bs[j]>>], !.off = P.off + Len(bs)]

\* frozen: the relative branches a816 assembles at the pinned commit (bvc, bvs, brl are ISA-defined but absent)
SupportedBranches == {"bpl", "bmi", "bra", "bcc", "bcs", "bne", "beq"}
IsBranchMn(mn) == mn \in {"bpl", "bmi", "bvc", "bvs", "bra", "bcc", "bcs", "bne", "beq"}

\* C05: the bytes of a relative branch at run address A to target T, or why there are none
BranchResult(bus, mn, A, T) ==
    IF A < 0 THEN [r |-> "unspec", bs |-> <<>>]
    ELSE IF T < 0 \/ T > 16777215 THEN [r |-> "unspec", bs |-> <<>>]
    ELSE IF Class(bus, A) \in {"ram", "none"} \/ Class(bus, T) \in {"ram", "none"} THEN [r |-> "fail", bs |-> <<>>]
    ELSE IF Class(bus, A) # "rom" \/ Class(bus, T) # "rom" THEN [r |-> "unspec", bs |-> <<>>]
    ELSE IF Bank(A) # Bank(T) THEN [r |-> "unspec", bs |-> <<>>]      \* cross-bank target: not in the statement
    ELSE LET d == T - (A + 2) IN
         IF d < -128 \/ d > 127 THEN [r |-> "fail", bs |-> <<>>]
         ELSE [r |-> "ok", bs |-> <<Opcode(mn, "rel8"), d % 256>>]

\* C13: each record's bytes at its offset plus delta, in order; position and addresses of the program unaffected
IpsPairs(node) == Flatten([j \in 1..Len(node.recs) |->
                    [m \in 1..Len(node.recs[j].data) |-> <<node.recs[j].off + node.delta + m - 1, node.recs[j].data[m]>>]])

StepEmit(node, i, scopes, bus, P, phaseCheck, tables) ==
    IF Dead(P) THEN P ELSE
    CASE node.k \in {"def", "darg", "enter", "exit"} -> P
      [] node.k = "ips" -> IF \E j \in 1..Len(node.recs) : node.recs[j].off + node.delta < 0
                           THEN PUnspec(P, "patch record moved below offset 0")
                           ELSE [P EXCEPT !.ips = @ \o IpsPairs(node)]
      \* C02: a label is where the next byte is emitted, or the assembly fails (phaseCheck = FALSE: pinned design)
      [] node.k = "label" -> IF phaseCheck /\ P.defs[<<node.sid, node.n>>].v # P.run
                             THEN PFail(P, "label moved between the label pass and emission") ELSE P
      [] node.k = "op" ->
            LET w == OpWidth(node, scopes, P.defs)
                v == IF node.shape = "imp" THEN EV(0) ELSE Eval(node.e, node.sid, scopes, P.defs) IN
            IF ~v.ok THEN PFail(P, "operand over an undefined name")
            ELSE IF w < 0 THEN PUnspec(P, "operand without suffix negative or wider than 3 bytes")
            \* a size that differs from the label pass: the next position-derived symbol will not be where it was
            \* resolved, which is a failure (checked at that label); with no such symbol nothing observable is wrong
            ELSE IF 1 + w # P.pred[i] THEN PutBytes(bus, [P EXCEPT !.drift = TRUE], Encoding(node.mn, node.shape, w, v.v))
            ELSE IF v.v < 0 /\ node.sfx = "l" THEN PUnspec(P, "negative value with .l")
            ELSE IF v.v >= 16777216 \/ v.v < -8388608 THEN PUnspec(P, "value beyond 24 bits")
            ELSE PutBytes(bus, P, Encoding(node.mn, node.shape, w, v.v))
      [] node.k = "branch" ->
            LET t == Eval(node.e, node.sid, scopes, P.defs) IN
            IF ~t.ok THEN PFail(P, "branch to an undefined name")
            ELSE IF node.mn \notin SupportedBranches THEN PUnspec(P, "branch mnemonic not in the supported set")
            ELSE LET b == BranchResult(bus, node.mn, P.run, t.v) IN
                 IF b.r = "fail" THEN PFail(P, "branch out of range or through RAM")
                 ELSE IF b.r = "unspec" THEN PUnspec(P, "branch outside the statement (cross-bank)")
                 ELSE PutBytes(bus, P, b.bs)
      [] node.k = "data" ->
            LET v == Eval(node.e, node.sid, scopes, P.defs) IN
            IF ~v.ok THEN PFail(P, "data over an undefined name") ELSE PutBytes(bus, P, LE(v.v, DataWidth(node.d)))
      [] node.k = "bytes" -> PutBytes(bus, P, node.bs)
      [] node.k = "text"  -> PutBytes(bus, P, Tbl!Encode(tables[node.tbl], node.s))
      [] node.k = "incbin" -> IF phaseCheck /\ P.defs[<<node.sid, node.sym>>].v # P.run
                              THEN PFail(P, "incbin symbol moved between the label pass and emission")
                              ELSE PutBytes(bus, P, node.bs)
      [] node.k \in {"stareq", "ateq"} ->
            LET t == MoveTarget(node, scopes, P.defs) IN
            IF ~t.ok THEN PFail(P, "position move over an undefined name")
            ELSE IF node.k = "stareq" /\ Class(bus, t.v) = "ram" THEN [P EXCEPT !.run = t.v, !.reloc = FALSE]
            ELSE IF node.k = "stareq" THEN [P EXCEPT !.run = t.v, !.off = Physical(bus, t.v), !.reloc = FALSE]
            ELSE [P EXCEPT !.run = t.v, !.reloc = TRUE]

\* ---- folding the passes ------------------------------------------------------------------
RECURSIVE FoldLabel(_, _, _, _, _, _), FoldSymbol(_, _, _, _, _), FoldEmit(_, _, _, _, _, _, _)
FoldLabel(nodes, i, scopes, bus, P, tb) == IF i > Len(nodes) THEN P ELSE FoldLabel(nodes, i + 1, scopes, bus, StepLabel(nodes[i], scopes, bus, Note(P), tb), tb)
FoldSymbol(nodes, i, scopes, bus, P) == IF i > Len(nodes) THEN P ELSE FoldSymbol(nodes, i + 1, scopes, bus, StepSymbol(nodes[i], scopes, bus, P))
FoldEmit(nodes, i, scopes, bus, P, pc, tb) == IF i > Len(nodes) THEN P ELSE FoldEmit(nodes, i + 1, scopes, bus, StepEmit(nodes[i], i, scopes, bus, Note(P), pc, tb), pc, tb)

\* between passes the position is reset (Program.resolver_reset); definitions are kept
Reset(P) == [P EXCEPT !.run = -1, !.off = -1, !.reloc = FALSE, !.at = <<>>, !.offs = <<>>, !.rel = <<>>]
KeepTrace(P) == [P EXCEPT !.at1 = P.at]

\* labels as get_all_labels() reports them: label definitions of the scopes that are not loop
\* iterations, as <<name, value>> pairs
LabelsOf(scopes, defs) == {<<p[2], defs[p].v>> : p \in {q \in DOMAIN defs : defs[q].lab /\ scopes[q[1]].kind # "loop"}}

\* Result of assembling prog: [outcome, img, labels, why]; outcome in ok | fail | unspec
Run(prog, callSite, phaseCheck) ==
    LET X == Expand(prog, callSite) IN
    IF X.fail THEN [outcome |-> "fail", img |-> <<>>, ips |-> <<>>, labels |-> {}, why |-> X.why, nodes |-> <<>>, scopes |-> X.scopes,
                    defs |-> X.defs, at1 |-> <<>>, at3 |-> <<>>, offs3 |-> <<>>, rel3 |-> <<>>, bus |-> LoROM]
    ELSE LET bus == BusFor(prog, X)
             tb == IF "tables" \in DOMAIN prog THEN prog.tables ELSE <<>>
             P1 == FoldLabel(X.nodes, 1, X.scopes, bus, PInit(X), tb)
             P2 == FoldSymbol(X.nodes, 1, X.scopes, bus, Reset(KeepTrace(P1)))
             P3 == FoldEmit(X.nodes, 1, X.scopes, bus, Reset(P2), phaseCheck, tb)
             \* where a patch record and the program's own output meet, the statements fix no winner
             clash == {P3.ips[j][1] : j \in 1..Len(P3.ips)} \cap {P3.img[j][1] : j \in 1..Len(P3.img)} # {}
         IN [outcome |-> IF P3.unspec THEN "unspec" ELSE IF P3.fail THEN "fail"
                         ELSE IF P3.ips # <<>> /\ clash THEN "unspec"
                         \* sizes differed between the passes but no position-derived symbol moved: the emitted
                         \* bytes (widths by the values at emission, C01) are right, and refusing is allowed too (C02)
                         ELSE IF (P3.drift /\ phaseCheck) \/ P3.ramstar THEN "either" ELSE "ok",
             img |-> P3.img, ips |-> P3.ips, labels |-> LabelsOf(X.scopes, P3.defs),
             why |-> IF ~P3.unspec /\ ~P3.fail /\ P3.ips # <<>> /\ clash THEN "included patch overlaps the program's own output" ELSE P3.why,
             nodes |-> X.nodes, scopes |-> X.scopes,
             defs |-> P3.defs, at1 |-> P3.at1, at3 |-> P3.at, offs3 |-> P3.offs, rel3 |-> P3.rel, bus |-> bus]

Spec(prog) == Run(prog, TRUE, TRUE)
=============================================================================
