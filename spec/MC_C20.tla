------------------------------ MODULE MC_C20 --------------------------------
(* Design level for C20: the closed forms of Legacy agree with Bus and round-trip, for     *)
(* every offset of the 4 MiB space (thorough) or all bank edges and a stride (quick).      *)
EXTENDS Legacy, TLC, IOUtils

Shard   == atoi(IOEnv.SHARD)
NShards == atoi(IOEnv.NSHARDS)
All == IOEnv.OFFSETS = "all"

VARIABLES mode, blk
Init == mode = "" /\ blk = -1
\* a block is one 32 KiB slice of the offset space (128 of them in 4 MiB)
Next == mode = "" /\ \E m \in Modes, b \in 0..127 : b % NShards = Shard /\ mode' = m /\ blk' = b

Offs(b) == IF All THEN (b * 32768)..(b * 32768 + 32767)
           ELSE {b * 32768 + d : d \in {0, 1, 2, 32765, 32766, 32767}} \cup {b * 32768 + k * 509 : k \in 0..64}

Agree == blk = -1 \/ \A o \in Offs(blk) :
            /\ AgreesWithBus(o, mode)
            /\ RoundTrip(o, mode)
            \* the address produced is the documented bank for the mode
            /\ Bank(RomToSnes(o, mode)) = (CASE mode = "low" -> o \div 32768
                                             [] mode = "low2" -> 128 + o \div 32768
                                             [] mode = "high" -> 192 + o \div 65536)
            \* LoROM variants: the bus maps the produced address as ROM wherever its banks reach
            /\ (mode = "low" /\ o \div 32768 <= 111 => Class(LoROM, RomToSnes(o, mode)) = "rom")
            /\ (mode = "high" => Class(HiROM, RomToSnes(o, mode)) = "rom")
Pointer == blk = -1 \/ \A p \in {0, 1, 32767, 32768, 65535} :
            LongLowRomPointer(blk * 32768, p) = LE(RomToSnes(blk * 32768 + p, "low"), 3)
=============================================================================
