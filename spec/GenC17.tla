------------------------------ MODULE GenC17 --------------------------------
(* Pipeline A for C17: every preamble of at most MaxPre items x fault kind x indentation x what  *)
(* follows x main/included file.  The vector carries the files and the required location.        *)
EXTENDS ErrLoc, Json, IOUtils
MaxPre == atoi(IOEnv.MAXPRE)
VARIABLES pre, done
Init == pre = <<>> /\ done = FALSE
\* items that define a name are not repeated (re-definition in one scope is outside the statements)
Defining == {"label", "macro", "scope", "zeroend", "localdef"}
Next == ~done /\ ( (Len(pre) < MaxPre /\ \E k \in PreKinds : (k \in Defining => \A j \in 1..Len(pre) : pre[j] # k)
                                                              /\ pre' = Append(pre, k) /\ done' = FALSE)
                   \/ (done' = TRUE /\ pre' = pre) )
Emit == ~done \/ \A fk \in FaultKinds, ind \in {0, 3, 0 - 1}, tail \in {"more", "last", "eof", "inmacro"}, where \in {"main", "part"} :
          PrintT(ToJson([pre |-> pre, fault |-> fk, where |-> where, tail |-> tail, c |-> Case(pre, fk, ind, tail, where)]))
Law == \A fk \in {"undef_operand", "bad_suffix"} : LocationLaw(pre, <<"blank">>, fk, 0) /\ LocationLaw(pre, <<"stmt", "stmt", "stmt">>, fk, 2)
=============================================================================
