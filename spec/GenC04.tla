------------------------------ MODULE GenC04 --------------------------------
(* Pipeline A for C04: TLC enumerates `.map` configurations (one ROM declaration from the  *)
(* menu plus a RAM declaration) and the probe addresses / increments to try on each.       *)
EXTENDS Bus, TLC, Json

VARIABLE cfg
GInit == cfg = <<>>
GNext == cfg = <<>> /\ \E B \in GenBuses : cfg' = B
Probes(B) ==
    LET m == B[1]
        banks == {m.b0, m.b1, B[2].b0, B[2].b1, B[2].b0 - 1} \cup (IF m.m0 = NoMirror THEN {} ELSE {m.m0, m.m1})
                 \cup (IF B[2].m0 = NoMirror THEN {} ELSE {B[2].m0, B[2].m1})
    IN { b * 65536 + o : b \in banks, o \in {m.lo, m.lo + 1, m.lo + 4660, m.hi - 2, m.hi - 1, m.hi} }
Emit == cfg = <<>> \/ PrintT(ToJson([decls |-> cfg, probes |-> Probes(cfg) \cup {8257536, 8323071, 8388607 - 65536},
                                     incs |-> {0, 1, 2, 3, 32767, 32768, 65536}]))
=============================================================================
