------------------------------ MODULE GenC12 --------------------------------
(* The option lattice of C12: output format x address mapping x copier header x defines x entry *)
(* point.  One vector per lattice point; the harness runs a family of programs on each.         *)
EXTENDS FrontDefs, Json
VARIABLE c
Init == c = <<>>
Next == c = <<>> /\ \E fmt \in {"ips", "sfc"}, map \in {"low", "low2", "high"}, hdr \in BOOLEAN, nd \in 0..2, e \in {"assemble", "patch", "cli"} :
          /\ (e = "assemble" => fmt = "sfc" /\ ~hdr)        \* Program.assemble writes a flat image
          /\ (e = "patch" => fmt = "ips")                   \* Program.assemble_as_patch writes a patch
          /\ c' = [format |-> fmt, mapping |-> map, header |-> hdr, ndef |-> nd, entry |-> e]
Emit == c = <<>> \/ PrintT(ToJson(c))
=============================================================================
