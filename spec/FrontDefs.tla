------------------------------ MODULE FrontDefs ------------------------------
(* Constant-level part of Front: phases, fault classes, what counts as a reported failure,   *)
(* and the relation between output files and the in-memory image (C12, C14).                 *)
EXTENDS Ips, TLC


Phases == <<"Read", "Scan", "Parse", "Expand", "Labels", "Symbols", "Emit", "Close", "Done">>
PhaseIndex(p) == CHOOSE j \in 1..Len(Phases) : Phases[j] = p

FaultClasses == {"none", "missing_source", "lexical", "syntax", "undefined_macro", "too_few_args", "missing_include",
                 "missing_incbin", "missing_table", "missing_ips", "malformed_ips", "undefined_operand_nosuffix", "unmapped_position",
                 "undefined_equ", "undefined_macro_arg", "undefined_operand", "undefined_data", "bad_width", "bad_mode", "branch_range",
                 "text_without_table"}
\* the phase in which each class of definite error is detected (at the latest)
PhaseOf(f) ==
    CASE f = "missing_source" -> "Read"
      [] f = "lexical" -> "Scan"
      [] f \in {"syntax", "missing_include"} -> "Parse"
      [] f \in {"undefined_macro", "too_few_args", "missing_incbin", "missing_table", "missing_ips", "malformed_ips"} -> "Expand"
      [] f \in {"undefined_operand_nosuffix", "unmapped_position", "text_without_table"} -> "Labels"
      [] f \in {"undefined_equ", "undefined_macro_arg"} -> "Symbols"
      [] f \in {"undefined_operand", "undefined_data", "bad_width", "bad_mode", "branch_range"} -> "Emit"

EntryPoints == {"string", "assemble", "patch", "cli"}

\* ---- what an observation must look like (used by the trace instances) ---------------------
\* obs: [returned, raised, status, success_text]  (returned: value of the in-memory API as "none"/"error")
ReportedFailure(e, obs) ==
    CASE e = "string" -> obs.raised \/ obs.returned = "error"
      [] e \in {"assemble", "patch"} -> obs.raised \/ obs.status # 0
      [] e = "cli" -> obs.status # 0 /\ ~obs.success_text
ReportedSuccess(e, obs) ==
    CASE e = "string" -> ~obs.raised /\ obs.returned = "none"
      [] e \in {"assemble", "patch"} -> ~obs.raised /\ obs.status = 0
      [] e = "cli" -> obs.status = 0

\* ---- C12: files versus the in-memory image ---------------------------------------------------
\* final image of an ordered list of (offset, byte) pairs: the last write to an offset wins
RECURSIVE FinalFrom(_, _, _)
FinalFrom(pairs, j, img) == IF j > Len(pairs) THEN img
                            ELSE FinalFrom(pairs, j + 1, (pairs[j][1] :> pairs[j][2]) @@ img)
Final(pairs) == FinalFrom(pairs, 1, << >>)
ShiftImg(img, d) == [o \in {x + d : x \in DOMAIN img} |-> img[o - d]]

IpsFileClause(file, pairs, header) ==
    LET r == Read(file, RealK) IN
    IF ~r.ok THEN "output is not a well-formed IPS patch: " \o r.why
    ELSE IF r.used # Len(file) THEN "bytes after the EOF marker"
    ELSE IF Apply(r.recs) # ShiftImg(Final(pairs), IF header THEN 512 ELSE 0)
         THEN "applying the patch does not give the in-memory image" \o (IF header THEN " shifted by 0x200" ELSE "")
    ELSE "ok"

SfcFileClause(file, pairs) ==
    LET img == Final(pairs) IN
    IF img = << >> THEN (IF \A j \in 1..Len(file) : file[j] = 0 THEN "ok" ELSE "bytes in an image of an empty program")
    ELSE LET top == CHOOSE o \in DOMAIN img : \A x \in DOMAIN img : x <= o IN
         IF Len(file) # top + 1 THEN "image length differs from the highest written offset + 1"
         ELSE IF \E o \in DOMAIN img : file[o + 1] # img[o] THEN "image byte differs from the in-memory assembly"
         ELSE IF \E j \in 1..Len(file) : (j - 1) \notin DOMAIN img /\ file[j] # 0 THEN "non-zero byte at an offset nothing was written to"
         ELSE "ok"
=============================================================================
