----------------------------- MODULE MC_Scanner -----------------------------
(* Design level for C15 / C17 on the character-level scanner model: for EVERY input of at     *)
(* most MaxLen characters over an alphabet (FAMILY), scanning terminates (no loop iteration     *)
(* that changes nothing: NoSpin) and every token carries the line and column of its first       *)
(* character (PositionLaw).  CHECKEOF=0 is the pinned block-comment loop: a spec mutant that     *)
(* TLC must refute.                                                                              *)
EXTENDS ScannerData, TLC, IOUtils, Naturals, Sequences, FiniteSets
MaxLen == atoi(IOEnv.MAXLEN)
CheckEof == IOEnv.CHECKEOF # "0"
Family == IOEnv.FAMILY
OldSize == IOEnv.OLDSIZE = "1"           \* "1" = design before the `lda.`-at-line-end fix (spec mutant)
Shard == atoi(IOEnv.SHARD)
NShards == atoi(IOEnv.NSHARDS)

S == INSTANCE Scanner WITH TableMnemonics <- MnemonicSeqs, NakedMnemonics <- NakedSeqs, Keywords <- KeywordSeqs, SizeEatsNewline <- OldSize

AlphaSeq == IF Family = "comments" THEN <<"n", "o", "p", " ", "\n", ";", "/", "*", "'", "\\", ".", "0">>
            ELSE IF Family = "operands" THEN <<"l", "d", "a", " ", ".", "w", "#", "(", ")", ",", "x", "1", "\n">>
            ELSE <<"d", "b", ".", " ", "\n", "1", "x", "0", ":", "=", "{", "}", "<nul>", "\t">>

VARIABLE inp
Init == inp = <<>>
Next == /\ Len(inp) < MaxLen
        /\ \E j \in 1..Len(AlphaSeq) : (Len(inp) = 0 => (j % NShards) = Shard) /\ inp' = Append(inp, AlphaSeq[j])

Result == S!Scan(inp, CheckEof)
Good == LET r == Result IN
        /\ r.st # "spin"                                  \* C15: no input makes a loop stop advancing
        /\ r.st \in {"done", "err"}                         \* finishes with tokens or a reported error
        /\ S!PositionLaw(r)                                 \* C17: line / column of every token
        /\ S!ErrorLaw(r)                                    \* C17: line / column of the listed lexical errors
        /\ (r.st = "err" => r.eline = S!NewlinesBefore(inp, r.pos) \/ r.eline <= S!NewlinesBefore(inp, Len(inp)))
=============================================================================
