------------------------------- MODULE ErrLoc -------------------------------
(* Where an error must point (C17).  A source file is a sequence of items, each occupying one  *)
(* or more physical lines.  An erroneous statement is inserted after a preamble; the reported   *)
(* location must be (file of the statement, zero-based index of its physical line, its text)    *)
(* and, for lexical errors, the zero-based column of the offending character.  The location is  *)
(* a function of the lines before the statement in ITS file only.                               *)
EXTENDS Naturals, Sequences, TLC

\* preamble items: lines of text
Item(k) ==
    CASE k = "blank"   -> <<"">>
      [] k = "comment" -> <<"; a comment line">>
      [] k = "eolc"    -> <<"nop ; trailing comment">>
      [] k = "stmt"    -> <<"lda.w #0x1234">>
      [] k = "label"   -> <<"some_label:">>
      [] k = "mlc"     -> <<"/* a comment", "   over three", "   lines */">>
      [] k = "mlc1"    -> <<"/* one line */">>
      [] k = "block"   -> <<"{", "    inx", "}">>
      [] k = "macro"   -> <<".macro helper(a, b) {", "    .db a", "    .dw b", "}">>
      [] k = "data"    -> <<".db 1, 2, 3", ".ascii 'text'">>
      [] k = "scope"   -> <<".scope named {", "inner_label:", "}">>
      [] k = "tabs"    -> <<"    ", "">>
      \* characters some libraries treat as line breaks but that do not end a source line (only \n does);
      \* "<vt>" "<nel>" "<ls>" stand for U+000B, U+0085, U+2028 (the harness substitutes them)
      [] k = "ffc"     -> <<"; comment with a form feed \f inside">>
      [] k = "vtstr"   -> <<".ascii 'a<vt>b' ; and <nel> <ls> in a comment">>
      \* lines whose last character is the one-digit literal 0
      \* the very operand texts of the fault statements, used validly inside a block that defines the name locally
      [] k = "localdef" -> <<"{", "nosuchsymbol := 5", "lda.w nosuchsymbol", "lda nosuchsymbol", ".dw 1, nosuchsymbol", "}">>
      \* rows of the same data directive as the fault statement `.dw 1, nosuchsymbol`
      [] k = "dwrows"  -> <<".dw 1, 2", ".dw 3, 4 ; second row", "", ".dw 5, 6">>
      [] k = "zeroend" -> <<"lda #0", ".db 1, 0", "zsym = 0">>
PreKinds == {"blank", "comment", "eolc", "stmt", "label", "mlc", "mlc1", "block", "macro", "data", "scope", "tabs", "ffc", "vtstr", "zeroend", "localdef", "dwrows"}

\* fault statements: text, whether the error is lexical, offset of the offending character in the text
Fault(k) ==
    CASE k = "undef_operand" -> [text |-> "lda.w nosuchsymbol", lexical |-> FALSE, off |-> 0]
      [] k = "undef_nosfx"   -> [text |-> "lda nosuchsymbol", lexical |-> FALSE, off |-> 0]
      [] k = "undef_data"    -> [text |-> ".dw 1, nosuchsymbol", lexical |-> FALSE, off |-> 0]
      [] k = "bad_suffix"    -> [text |-> "lda.q 0x10", lexical |-> TRUE, off |-> 4]
      [] k = "bad_index"     -> [text |-> "lda 0x10,z", lexical |-> TRUE, off |-> 9]
      \* the index register is missing: the offending character is the line end after the comma
      [] k = "missing_index" -> [text |-> "lda 0x10,", lexical |-> TRUE, off |-> 9]
      [] k = "unterminated"  -> [text |-> ".ascii 'abc", lexical |-> TRUE, off |-> 7]
      [] k = "unterminated_bs" -> [text |-> ".ascii 'abc\\", lexical |-> TRUE, off |-> 7]
      \* a size suffix that is missing altogether: the offending character is the one after the dot (here the line end)
      [] k = "empty_suffix"  -> [text |-> "lda.", lexical |-> TRUE, off |-> 4]
      [] k = "bad_width"     -> [text |-> "lda.l #0x123456", lexical |-> FALSE, off |-> 0]
FaultKinds == {"undef_operand", "undef_nosfx", "undef_data", "bad_suffix", "bad_index", "unterminated", "unterminated_bs", "bad_width", "empty_suffix", "missing_index"}

Spaces(n) == [j \in 1..n |-> " "]
RECURSIVE Cat(_)
Cat(ss) == IF ss = <<>> THEN "" ELSE Head(ss) \o Cat(Tail(ss))
\* n = 0 - 1: one TAB (which is one character: the column of what follows is 1)
Indent(n, s) == IF n = 0 - 1 THEN "\t" \o s ELSE Cat(Spaces(n)) \o s
IndentWidth(n) == IF n = 0 - 1 THEN 1 ELSE n

RECURSIVE LinesOf(_)
LinesOf(kinds) == IF kinds = <<>> THEN <<>> ELSE Item(Head(kinds)) \o LinesOf(Tail(kinds))

\* a case: preamble kinds, fault kind, indentation, what follows, main or included file
\* -> the files to write and the location that must be reported
Case(pre, fk, ind, tail, where) ==
    LET f == Fault(fk)
        stmt == Indent(ind, f.text)
        \* tail "inmacro": the statement stands in the body of a macro that is applied afterwards (its own line is
        \* still the one to report)
        after == IF tail = "more" THEN <<"nop", "rts">> ELSE IF tail = "inmacro" THEN <<"}", "faultymacro()", "rts">> ELSE <<>>
        before0 == LinesOf(pre)
        before == IF tail = "inmacro" THEN before0 \o <<".macro faultymacro() {">> ELSE before0
        body == before \o <<stmt>> \o after
        origin == <<"*=0x008000">>
    IN [ main |-> IF where = "main" THEN origin \o body ELSE origin \o <<"nop", ".include 'part.s'", "rts">>,
         part |-> IF where = "main" THEN <<>> ELSE body,
         final_newline |-> tail # "eof",
         req |-> [ file |-> IF where = "main" THEN "main.s" ELSE "part.s",
                   line |-> Len(before) + (IF where = "main" THEN 1 ELSE 0),
                   text |-> stmt, lexical |-> f.lexical, col |-> IndentWidth(ind) + f.off ] ]

\* design-level property of this module: the required location depends only on the number of physical
\* lines before the statement in its own file
LocationLaw(pre1, pre2, fk, ind) ==
    Len(LinesOf(pre1)) = Len(LinesOf(pre2)) =>
        Case(pre1, fk, ind, "more", "main").req.line = Case(pre2, fk, ind, "more", "main").req.line
=============================================================================
