------------------------------ MODULE GenC11 --------------------------------
(* Pipeline A for C11 at the real constants: write histories for the real IPSWriter.        *)
(* Single writes over the full boundary menu; two- and three-write histories over a small   *)
(* menu (adjacent, overlapping, empty, around the EOF address and the address limit).       *)
EXTENDS Ips, TLC, Json

Eof == RealK.eof
Lim == RealK.limit
Lens == {0, 1, 2, 65534, 65535, 65536, 131069, 131070, 131071, 196605, 196606}
AddrsFor(n) == {0, 511, 512, 513, Eof - 65535, Eof - 512, Eof - 1, Eof, Eof + 1, Eof - 65535 - 512,
                Lim - n, Lim - n + 1, Lim - n - 512, Lim - n - 511, Lim - 1, Lim, -1}
SmallLens == {0, 1, 3}
SmallAddrs == {0, 2, 3, Eof - 3, Eof, Eof - 512, Lim - 3}

W(a, n, k) == [addr |-> a, len |-> n, seed |-> 17 * k + 3, step |-> 2 * k + 1]

VARIABLE c
Init == c = <<>>
Next == c = <<>> /\
   \/ \E h \in BOOLEAN, n \in Lens : \E a \in AddrsFor(n) : a >= -1 /\ c' = [header |-> h, writes |-> <<W(a, n, 1)>>]
   \/ \E h \in BOOLEAN, n1 \in SmallLens, n2 \in SmallLens, a1 \in SmallAddrs, a2 \in SmallAddrs :
         c' = [header |-> h, writes |-> <<W(a1, n1, 1), W(a2, n2, 2)>>]
   \/ \E h \in BOOLEAN, n \in {1, 65536}, a1 \in {0, Eof - 65535}, a2 \in {1, 65535}, a3 \in {0, Eof} :
         c' = [header |-> h, writes |-> <<W(a1, n, 1), W(a1 + a2, 2, 2), W(a3, 0, 3), W(a3 + 7, 1, 4)>>]
Emit == c = <<>> \/ PrintT(ToJson(c))
=============================================================================
