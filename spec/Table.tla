------------------------------- MODULE Table --------------------------------
(* Character tables (script/__init__.py Table, a816 TableNode/TextNode) — C18.             *)
(* A table is a sequence of entries [text, code]: text a non-empty sequence of characters,  *)
(* code a non-empty sequence of bytes; a later entry for the same text replaces an earlier  *)
(* one.  A string is a sequence of symbols: [k |-> "c", v |-> char] or the escape           *)
(* [k |-> "j", v |-> byte] written `[0xNN]` in the source.                                  *)
(* The encoder is a position-stepping machine: one step per position visited.               *)
EXTENDS Util

IsChar(sym) == sym.k = "c"
Chars(s, p, n) == [j \in 1..n |-> s[p + j - 1].v]
AllChars(s, p, n) == \A j \in p..(p + n - 1) : IsChar(s[j])

Texts(tbl) == {tbl[j].text : j \in 1..Len(tbl)}
\* the entry in force for a text: the last one declared
CodeOf(tbl, text) == tbl[CHOOSE j \in 1..Len(tbl) : tbl[j].text = text /\ \A m \in (j + 1)..Len(tbl) : tbl[m].text # text].code
MaxTextLen(tbl) == IF tbl = <<>> THEN 0 ELSE LET S == {Len(tbl[j].text) : j \in 1..Len(tbl)} IN CHOOSE n \in S : \A m \in S : m <= n

\* lengths n such that the n characters at p are an entry's text
Candidates(tbl, s, p) == {n \in 1..MaxTextLen(tbl) : p + n - 1 <= Len(s) /\ AllChars(s, p, n) /\ Chars(s, p, n) \in Texts(tbl)}

\* ---- the encoder machine ---------------------------------------------------------------
\* state: p next position, out bytes so far, hist the entries chosen (text) / "j" / "skip"
EncInit == [p |-> 1, out |-> <<>>, hist |-> <<>>]
EncDone(st, s) == st.p > Len(s)
EncStep(tbl, s, st) ==
    LET p == st.p IN
    IF s[p].k = "j" THEN [p |-> p + 1, out |-> Append(st.out, s[p].v), hist |-> Append(st.hist, [kind |-> "joker", at |-> p, n |-> 1])]
    ELSE LET C == Candidates(tbl, s, p) IN
         IF C = {} THEN [p |-> p + 1, out |-> st.out, hist |-> Append(st.hist, [kind |-> "skip", at |-> p, n |-> 1])]
         ELSE LET n == CHOOSE x \in C : \A y \in C : y <= x IN
              [p |-> p + n, out |-> st.out \o CodeOf(tbl, Chars(s, p, n)), hist |-> Append(st.hist, [kind |-> "entry", at |-> p, n |-> n])]

RECURSIVE EncRun(_, _, _)
EncRun(tbl, s, st) == IF EncDone(st, s) THEN st ELSE EncRun(tbl, s, EncStep(tbl, s, st))
Encode(tbl, s) == EncRun(tbl, s, EncInit).out
\* with no table in force `.text` cannot be assembled

\* ---- the decoder -------------------------------------------------------------------------
Codes(tbl) == {tbl[j].code : j \in 1..Len(tbl)}
TextOfCode(tbl, code) == tbl[CHOOSE j \in 1..Len(tbl) : tbl[j].code = code /\ \A m \in (j + 1)..Len(tbl) : tbl[m].code # code].text
MaxCodeLen(tbl) == LET S == {Len(tbl[j].code) : j \in 1..Len(tbl)} IN CHOOSE n \in S : \A m \in S : m <= n
RECURSIVE DecRun(_, _, _, _)
\* result: sequence of items, an entry's text (sequence of characters) or <<"raw", byte>>
DecRun(tbl, bs, p, acc) ==
    IF p > Len(bs) THEN acc
    ELSE LET C == {n \in 1..MaxCodeLen(tbl) : p + n - 1 <= Len(bs) /\ SubSeq(bs, p, p + n - 1) \in Codes(tbl)} IN
         IF C = {} THEN DecRun(tbl, bs, p + 1, Append(acc, <<"raw", bs[p]>>))
         ELSE LET n == CHOOSE x \in C : \A y \in C : y <= x IN
              DecRun(tbl, bs, p + n, Append(acc, TextOfCode(tbl, SubSeq(bs, p, p + n - 1))))
Decode(tbl, bs) == DecRun(tbl, bs, 1, <<>>)

IsPrefix(a, b) == Len(a) <= Len(b) /\ SubSeq(b, 1, Len(a)) = a
\* codes unique and prefix-free, one entry per text
CleanTable(tbl) == \A j, m \in 1..Len(tbl) : j # m => (~IsPrefix(tbl[j].code, tbl[m].code) /\ tbl[j].text # tbl[m].text)

\* the texts of the matched entries, in order (what decoding must return for a clean table)
MatchedTexts(tbl, s) == LET h == EncRun(tbl, s, EncInit).hist
                            E == SelectSeq(h, LAMBDA x : x.kind = "entry")
                        IN [j \in 1..Len(E) |-> Chars(s, E[j].at, E[j].n)]
NoJoker(s) == \A j \in 1..Len(s) : IsChar(s[j])
=============================================================================
