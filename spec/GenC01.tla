------------------------------ MODULE GenC01 --------------------------------
(* Pipeline A for C01: the case machine.  One state per (mnemonic, shape); the vector      *)
(* lists the suffixes, operand values and letter cases the harness must try on it.         *)
EXTENDS Instr, TLC, Json

\* mnemonics of the ISA plus two names that are not instructions at all
CaseMnemonics == Mnemonics \cup {"xyz", "ldq"}
BranchMnemonics == {"bpl","bmi","bvc","bvs","bra","bcc","bcs","bne","beq","brl","per"}
Values == {0, 127, 255, 256, 65535, 65536, 16777215, 16777216}

VARIABLE c
Init == c = <<>>
Next == c = <<>> /\ \E mn \in CaseMnemonics, sh \in Shapes :
            \* relative branches written `mn e` are the subject of C05, not of C01
            /\ ~(mn \in BranchMnemonics /\ sh = "dir")
            /\ c' = [mn |-> mn, shape |-> sh,
                     sfxs |-> IF sh = "imp" THEN {""} ELSE {"", "b", "w", "l"},
                     vals |-> IF sh = "imp" THEN {0} ELSE Values]
Emit == c = <<>> \/ PrintT(ToJson(c))
=============================================================================
