----------------------------- MODULE TraceC11 -------------------------------
(* Judge for C11: a history of writes was fed to the real IPSWriter; the produced file is    *)
(* logged as bytes and read by the independent reader of Ips at the real constants.          *)
EXTENDS Ips, TLC, Json, IOUtils

Trace == ndJsonDeserialize(IOEnv.TRACE_FILE)
VARIABLE i
Init == i = 0
Next == i < Len(Trace) /\ i' = i + 1

\* block contents are described by a pattern, rebuilt here: byte j = (seed + (j-1)*step) mod 256
Data(w) == [j \in 1..w.len |-> (w.seed + (j - 1) * w.step) % 256]
Writes(r) == [j \in 1..Len(r.writes) |-> [addr |-> r.writes[j].addr, data |-> Data(r.writes[j])]]

Clause(r) ==
    LET ws == Writes(r) IN
    IF r.refused_at = 0 - 1
    THEN \* end() raised (a writer may defer its work to the end): acceptable only if some block of the history
         \* is one IPS cannot represent
         IF \E j \in 1..Len(ws) : ~Representable(ws[j], RealK, r.header) \/ StartsAtMarker(ws[j], RealK, r.header)
         THEN "ok" ELSE "closing the file failed although every block is representable"
    ELSE IF r.refused_at > 0
    THEN \* the k-th write raised: acceptable only if IPS cannot represent that block
         LET w == ws[r.refused_at] IN
         \* (a block that merely covers the EOF address can be split around it, so it must be written)
         IF ~Representable(w, RealK, r.header) \/ StartsAtMarker(w, RealK, r.header)
         THEN "ok" ELSE "a representable block was refused"
    ELSE FileClause(r.file, ws, RealK, r.header)

Judge == i = 0 \/ LET r == Trace[i] c == Clause(r) IN
                  IF c = "ok" THEN TRUE ELSE PrintT(ToJson([id |-> r.id, clause |-> c]))
=============================================================================
