------------------------------- MODULE Util --------------------------------
(* Shared helpers: bytes, little-endian packing, two's-complement truncation.  *)
EXTENDS Integers, Sequences, FiniteSets

Pow2(n) == 2 ^ n
Pow256(k) == IF k = 0 THEN 1 ELSE IF k = 1 THEN 256 ELSE IF k = 2 THEN 65536 ELSE 16777216

\* v mod m for possibly negative v, result in 0..m-1 (TLA+ % is already non-negative for m > 0)
Mod(v, m) == v % m

\* the k low bytes of v (two's complement for negative v), least significant first
LE(v, k) == [j \in 1..k |-> (Mod(v, Pow256(k)) \div Pow256(j - 1)) % 256]

\* big-endian, used by the IPS record header
BE(v, k) == [j \in 1..k |-> (v \div Pow256(k - j)) % 256]

FromLE(bs) == LET RECURSIVE F(_)
                  F(i) == IF i > Len(bs) THEN 0 ELSE bs[i] + 256 * F(i + 1)
              IN F(1)
FromBE(bs) == LET RECURSIVE F(_, _)
                  F(i, acc) == IF i > Len(bs) THEN acc ELSE F(i + 1, acc * 256 + bs[i])
              IN F(1, 0)

Min(a, b) == IF a < b THEN a ELSE b
Max(a, b) == IF a > b THEN a ELSE b

Range(f) == {f[x] : x \in DOMAIN f}

\* concatenation of a sequence of sequences
RECURSIVE Flatten(_)
Flatten(ss) == IF ss = <<>> THEN <<>> ELSE Head(ss) \o Flatten(Tail(ss))

SeqSum(s) == LET RECURSIVE F(_)
                 F(i) == IF i > Len(s) THEN 0 ELSE s[i] + F(i + 1)
             IN F(1)

HasField(r, f) == f \in DOMAIN r
=============================================================================
