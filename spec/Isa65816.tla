----------------------------- MODULE Isa65816 -------------------------------
(* The WDC 65c816 opcode matrix, transcribed from the ISA (not from a816's table).         *)
(* Matrix[b + 1] = <<mnemonic, mode>> for opcode byte b.                                   *)
(* Modes:  imp   implied / accumulator            imm   immediate (width by ImmClass)      *)
(*         dp abs long    direct 1/2/3 bytes      dpx absx longx   ...,x                   *)
(*         dpy absy       ...,y                   sr    d,s                                *)
(*         idp (d)  iabs (a)  idpy (d),y  idpx (d,x)  iabsx (a,x)  isry (d,s),y            *)
(*         ildp [d]  ilabs [a]  ildpy [d],y       rel8 rel16   bm  block move (2 bytes)    *)
EXTENDS Util

Matrix == <<
 <<"brk","imp">>, <<"ora","idpx">>, <<"cop","imm">>,  <<"ora","sr">>,   <<"tsb","dp">>,   <<"ora","dp">>,   <<"asl","dp">>,   <<"ora","ildp">>,
 <<"php","imp">>, <<"ora","imm">>,  <<"asl","imp">>,  <<"phd","imp">>,  <<"tsb","abs">>,  <<"ora","abs">>,  <<"asl","abs">>,  <<"ora","long">>,
 <<"bpl","rel8">>,<<"ora","idpy">>, <<"ora","idp">>,  <<"ora","isry">>, <<"trb","dp">>,   <<"ora","dpx">>,  <<"asl","dpx">>,  <<"ora","ildpy">>,
 <<"clc","imp">>, <<"ora","absy">>, <<"inc","imp">>,  <<"tcs","imp">>,  <<"trb","abs">>,  <<"ora","absx">>, <<"asl","absx">>, <<"ora","longx">>,
 <<"jsr","abs">>, <<"and","idpx">>, <<"jsl","long">>, <<"and","sr">>,   <<"bit","dp">>,   <<"and","dp">>,   <<"rol","dp">>,   <<"and","ildp">>,
 <<"plp","imp">>, <<"and","imm">>,  <<"rol","imp">>,  <<"pld","imp">>,  <<"bit","abs">>,  <<"and","abs">>,  <<"rol","abs">>,  <<"and","long">>,
 <<"bmi","rel8">>,<<"and","idpy">>, <<"and","idp">>,  <<"and","isry">>, <<"bit","dpx">>,  <<"and","dpx">>,  <<"rol","dpx">>,  <<"and","ildpy">>,
 <<"sec","imp">>, <<"and","absy">>, <<"dec","imp">>,  <<"tsc","imp">>,  <<"bit","absx">>, <<"and","absx">>, <<"rol","absx">>, <<"and","longx">>,
 <<"rti","imp">>, <<"eor","idpx">>, <<"wdm","imm">>,  <<"eor","sr">>,   <<"mvp","bm">>,   <<"eor","dp">>,   <<"lsr","dp">>,   <<"eor","ildp">>,
 <<"pha","imp">>, <<"eor","imm">>,  <<"lsr","imp">>,  <<"phk","imp">>,  <<"jmp","abs">>,  <<"eor","abs">>,  <<"lsr","abs">>,  <<"eor","long">>,
 <<"bvc","rel8">>,<<"eor","idpy">>, <<"eor","idp">>,  <<"eor","isry">>, <<"mvn","bm">>,   <<"eor","dpx">>,  <<"lsr","dpx">>,  <<"eor","ildpy">>,
 <<"cli","imp">>, <<"eor","absy">>, <<"phy","imp">>,  <<"tcd","imp">>,  <<"jml","long">>, <<"eor","absx">>, <<"lsr","absx">>, <<"eor","longx">>,
 <<"rts","imp">>, <<"adc","idpx">>, <<"per","rel16">>,<<"adc","sr">>,   <<"stz","dp">>,   <<"adc","dp">>,   <<"ror","dp">>,   <<"adc","ildp">>,
 <<"pla","imp">>, <<"adc","imm">>,  <<"ror","imp">>,  <<"rtl","imp">>,  <<"jmp","iabs">>, <<"adc","abs">>,  <<"ror","abs">>,  <<"adc","long">>,
 <<"bvs","rel8">>,<<"adc","idpy">>, <<"adc","idp">>,  <<"adc","isry">>, <<"stz","dpx">>,  <<"adc","dpx">>,  <<"ror","dpx">>,  <<"adc","ildpy">>,
 <<"sei","imp">>, <<"adc","absy">>, <<"ply","imp">>,  <<"tdc","imp">>,  <<"jmp","iabsx">>,<<"adc","absx">>, <<"ror","absx">>, <<"adc","longx">>,
 <<"bra","rel8">>,<<"sta","idpx">>, <<"brl","rel16">>,<<"sta","sr">>,   <<"sty","dp">>,   <<"sta","dp">>,   <<"stx","dp">>,   <<"sta","ildp">>,
 <<"dey","imp">>, <<"bit","imm">>,  <<"txa","imp">>,  <<"phb","imp">>,  <<"sty","abs">>,  <<"sta","abs">>,  <<"stx","abs">>,  <<"sta","long">>,
 <<"bcc","rel8">>,<<"sta","idpy">>, <<"sta","idp">>,  <<"sta","isry">>, <<"sty","dpx">>,  <<"sta","dpx">>,  <<"stx","dpy">>,  <<"sta","ildpy">>,
 <<"tya","imp">>, <<"sta","absy">>, <<"txs","imp">>,  <<"txy","imp">>,  <<"stz","abs">>,  <<"sta","absx">>, <<"stz","absx">>, <<"sta","longx">>,
 <<"ldy","imm">>, <<"lda","idpx">>, <<"ldx","imm">>,  <<"lda","sr">>,   <<"ldy","dp">>,   <<"lda","dp">>,   <<"ldx","dp">>,   <<"lda","ildp">>,
 <<"tay","imp">>, <<"lda","imm">>,  <<"tax","imp">>,  <<"plb","imp">>,  <<"ldy","abs">>,  <<"lda","abs">>,  <<"ldx","abs">>,  <<"lda","long">>,
 <<"bcs","rel8">>,<<"lda","idpy">>, <<"lda","idp">>,  <<"lda","isry">>, <<"ldy","dpx">>,  <<"lda","dpx">>,  <<"ldx","dpy">>,  <<"lda","ildpy">>,
 <<"clv","imp">>, <<"lda","absy">>, <<"tsx","imp">>,  <<"tyx","imp">>,  <<"ldy","absx">>, <<"lda","absx">>, <<"ldx","absy">>, <<"lda","longx">>,
 <<"cpy","imm">>, <<"cmp","idpx">>, <<"rep","imm">>,  <<"cmp","sr">>,   <<"cpy","dp">>,   <<"cmp","dp">>,   <<"dec","dp">>,   <<"cmp","ildp">>,
 <<"iny","imp">>, <<"cmp","imm">>,  <<"dex","imp">>,  <<"wai","imp">>,  <<"cpy","abs">>,  <<"cmp","abs">>,  <<"dec","abs">>,  <<"cmp","long">>,
 <<"bne","rel8">>,<<"cmp","idpy">>, <<"cmp","idp">>,  <<"cmp","isry">>, <<"pei","idp">>,  <<"cmp","dpx">>,  <<"dec","dpx">>,  <<"cmp","ildpy">>,
 <<"cld","imp">>, <<"cmp","absy">>, <<"phx","imp">>,  <<"stp","imp">>,  <<"jml","ilabs">>,<<"cmp","absx">>, <<"dec","absx">>, <<"cmp","longx">>,
 <<"cpx","imm">>, <<"sbc","idpx">>, <<"sep","imm">>,  <<"sbc","sr">>,   <<"cpx","dp">>,   <<"sbc","dp">>,   <<"inc","dp">>,   <<"sbc","ildp">>,
 <<"inx","imp">>, <<"sbc","imm">>,  <<"nop","imp">>,  <<"xba","imp">>,  <<"cpx","abs">>,  <<"sbc","abs">>,  <<"inc","abs">>,  <<"sbc","long">>,
 <<"beq","rel8">>,<<"sbc","idpy">>, <<"sbc","idp">>,  <<"sbc","isry">>, <<"pea","abs">>,  <<"sbc","dpx">>,  <<"inc","dpx">>,  <<"sbc","ildpy">>,
 <<"sed","imp">>, <<"sbc","absy">>, <<"plx","imp">>,  <<"xce","imp">>,  <<"jsr","iabsx">>,<<"sbc","absx">>, <<"inc","absx">>, <<"sbc","longx">>
>>

Mnemonics == {Matrix[i][1] : i \in 1..256}
Modes     == {Matrix[i][2] : i \in 1..256}
Pairs     == {Matrix[i] : i \in 1..256}

\* widely used aliases: the long forms written with the short mnemonic
Alias(mn, mode) == CASE mn = "jmp" /\ mode = "long"  -> <<"jml", "long">>
                     [] mn = "jsr" /\ mode = "long"  -> <<"jsl", "long">>
                     [] mn = "jmp" /\ mode = "ilabs" -> <<"jml", "ilabs">>
                     [] OTHER -> <<mn, mode>>

OpByte == [p \in Pairs |-> (CHOOSE i \in 1..256 : Matrix[i] = p) - 1]

Defined(mn, mode) == Alias(mn, mode) \in Pairs
Opcode(mn, mode)  == OpByte[Alias(mn, mode)]

\* immediate width class: "A" follows the accumulator width (1 or 2 bytes), "X" the index width,
\* "fix" is always one byte
ImmClass(mn) == IF mn \in {"ora","and","eor","adc","bit","lda","cmp","sbc"} THEN "A"
                ELSE IF mn \in {"ldy","ldx","cpy","cpx"} THEN "X" ELSE "fix"

\* operand bytes of a mode for the non-immediate modes
OperandBytes(mode) ==
    CASE mode = "imp" -> 0
      [] mode \in {"dp","dpx","dpy","sr","idp","idpy","idpx","isry","ildp","ildpy","rel8"} -> 1
      [] mode \in {"abs","absx","absy","iabs","iabsx","ilabs","rel16","bm"} -> 2
      [] mode \in {"long","longx"} -> 3

\* ---- self-checks of the transcription (design level, C01) ----------------------------
MatrixComplete  == Len(Matrix) = 256
MatrixInjective == \A i, j \in 1..256 : Matrix[i] = Matrix[j] => i = j
MnemonicCount   == Cardinality(Mnemonics) = 92      \* the 65c816 has 92 mnemonics (incl. wdm, jml, jsl)
\* column regularities of the matrix that a transcription slip would break
GroupOne == \A k \in 0..7 :
    LET mn == <<"ora","and","eor","adc","sta","lda","cmp","sbc">>[k + 1]
        base == 32 * k
    IN /\ Matrix[base + 1 + 1]  = <<mn, "idpx">> /\ Matrix[base + 3 + 1]  = <<mn, "sr">>
       /\ Matrix[base + 5 + 1]  = <<mn, "dp">>   /\ Matrix[base + 7 + 1]  = <<mn, "ildp">>
       /\ (mn # "sta" => Matrix[base + 9 + 1] = <<mn, "imm">>)
       /\ Matrix[base + 13 + 1] = <<mn, "abs">>  /\ Matrix[base + 15 + 1] = <<mn, "long">>
       /\ Matrix[base + 17 + 1] = <<mn, "idpy">> /\ Matrix[base + 18 + 1] = <<mn, "idp">>
       /\ Matrix[base + 19 + 1] = <<mn, "isry">> /\ Matrix[base + 21 + 1] = <<mn, "dpx">>
       /\ Matrix[base + 23 + 1] = <<mn, "ildpy">> /\ Matrix[base + 25 + 1] = <<mn, "absy">>
       /\ Matrix[base + 29 + 1] = <<mn, "absx">> /\ Matrix[base + 31 + 1] = <<mn, "longx">>
Branches == /\ \A k \in 0..7 : Matrix[32 * k + 16 + 1] = << <<"bpl","bmi","bvc","bvs","bcc","bcs","bne","beq">>[k + 1], "rel8">>
            /\ Matrix[128 + 1] = <<"bra", "rel8">> /\ Matrix[130 + 1] = <<"brl", "rel16">>
=============================================================================
