-------------------------------- MODULE Wide --------------------------------
(* 48-bit two's-complement integers as 4 limbs of 12 bits, least significant first.       *)
(* TLC integers are 32-bit and a816 computes over unbounded Python integers; expression    *)
(* values up to 46 bits are represented exactly here (C06, C07).                           *)
EXTENDS Integers, Sequences, Bitwise

B == 4096
Zero == <<0, 0, 0, 0>>
One  == <<1, 0, 0, 0>>

IsWide(a) == Len(a) = 4 /\ \A k \in 1..4 : a[k] \in 0..(B - 1)

\* from a TLC integer (|n| < 2^31)
FromInt(n) == << n % B, (n \div B) % B, (n \div (B * B)) % B, IF n < 0 THEN B - 1 ELSE 0 >>

IsNeg(a) == a[4] >= 2048

Add(a, b) ==
    LET s1 == a[1] + b[1]
        s2 == a[2] + b[2] + s1 \div B
        s3 == a[3] + b[3] + s2 \div B
        s4 == a[4] + b[4] + s3 \div B
    IN << s1 % B, s2 % B, s3 % B, s4 % B >>

Compl(a) == << B - 1 - a[1], B - 1 - a[2], B - 1 - a[3], B - 1 - a[4] >>
Neg(a) == Add(Compl(a), One)
Sub(a, b) == Add(a, Neg(b))

Mul(a, b) ==
    LET c1 == a[1] * b[1]
        c2 == a[1] * b[2] + a[2] * b[1] + c1 \div B
        c3 == a[1] * b[3] + a[2] * b[2] + a[3] * b[1] + c2 \div B
        c4 == a[1] * b[4] + a[2] * b[3] + a[3] * b[2] + a[4] * b[1] + c3 \div B
    IN << c1 % B, c2 % B, c3 % B, c4 % B >>

\* |a| < 2^46 : representable with two bits of head-room (results are exact, not wrapped)
InRange(a) == IF IsNeg(a) THEN a[4] >= 3072 ELSE a[4] < 1024

Abs(a) == IF IsNeg(a) THEN Neg(a) ELSE a

\* small non-negative value as a TLC integer (a < 2^24)
IsSmall(a) == a[3] = 0 /\ a[4] = 0
ToSmall(a) == a[1] + B * a[2]
Fits31(a)  == (a[4] = 0 /\ a[3] < 128) \/ (a[4] = B - 1 /\ a[3] >= 3968)   \* |a| < 2^31
ToInt(a)   == IF IsNeg(a) THEN -(LET n == Neg(a) IN n[1] + B * n[2] + B * B * n[3])
              ELSE a[1] + B * a[2] + B * B * a[3]

Less(a, b) == IsNeg(Sub(a, b))      \* exact while both are InRange

\* multiply / divide by 2, k times (k small)
Dbl(a) == Add(a, a)
Half(a) ==          \* arithmetic shift right by one (floor division by 2)
    << (a[1] \div 2) + (a[2] % 2) * 2048, (a[2] \div 2) + (a[3] % 2) * 2048,
       (a[3] \div 2) + (a[4] % 2) * 2048, (a[4] \div 2) + (IF IsNeg(a) THEN 2048 ELSE 0) >>
RECURSIVE Shl(_, _), Shr(_, _)
Shl(a, k) == IF k = 0 THEN a ELSE Shl(Dbl(a), k - 1)
Shr(a, k) == IF k = 0 THEN a ELSE Shr(Half(a), k - 1)

\* number of significant bits of a non-negative value
RECURSIVE BitLenFrom(_, _)
BitLenFrom(a, n) == IF a = Zero THEN n ELSE BitLenFrom(Half(a), n + 1)
BitLen(a) == BitLenFrom(a, 0)

WAnd(a, b) == << a[1] & b[1], a[2] & b[2], a[3] & b[3], a[4] & b[4] >>
WOr(a, b)  == << a[1] | b[1], a[2] | b[2], a[3] | b[3], a[4] | b[4] >>

\* 2^n - 1 as a wide value, n <= 46
AllOnes(n) == Sub(Shl(One, n), One)

\* the k low bytes, least significant first (two's complement), k <= 4
LowBytes(a, k) ==
    LET b == << a[1] % 256, (a[1] \div 256) + (a[2] % 16) * 16, a[2] \div 16,
                a[3] % 256, (a[3] \div 256) + (a[4] % 16) * 16, a[4] \div 16 >>
    IN [j \in 1..k |-> b[j]]
=============================================================================
