----------------------------- MODULE TraceC17 -------------------------------
(* Judge for C17: the error text a816 produced for a case of GenC17 was searched for             *)
(* file:line[:column] occurrences (tolerant) and for the statement's text.                       *)
EXTENDS Naturals, Sequences, TLC, Json, IOUtils
Trace == ndJsonDeserialize(IOEnv.TRACE_FILE)
VARIABLE i
Init == i = 0
Next == i < Len(Trace) /\ i' = i + 1
\* locs: sequence of [file, line, col] (col = -999 when absent)
Clause(r) ==
    IF r.ok THEN "the erroneous program assembled"
    ELSE IF ~\E j \in 1..Len(r.locs) : r.locs[j].file = r.req.file /\ r.locs[j].line = r.req.line
         THEN "no file:line in the error names the statement (" \o r.req.file \o ":" \o ToString(r.req.line) \o ")"
    ELSE IF ~r.has_text THEN "the error does not quote the statement's line"
    ELSE IF r.req.lexical /\ ~\E j \in 1..Len(r.locs) : r.locs[j].file = r.req.file /\ r.locs[j].line = r.req.line /\ r.locs[j].col = r.req.col
         THEN "lexical error without the column of the offending character (" \o ToString(r.req.col) \o ")"
    ELSE "ok"
Judge == i = 0 \/ LET r == Trace[i] c == Clause(r) IN
                  IF c = "ok" THEN TRUE ELSE PrintT(ToJson([id |-> r.id, clause |-> c]))
=============================================================================
