----------------------------- MODULE TraceC12 -------------------------------
(* Judge for C12: a source was assembled through a front end (file API or CLI) under one point   *)
(* of the option lattice, and in memory (defines written as constants, same ROM type).  The      *)
(* output file must stand in the FrontDefs relation to the in-memory writer image, the status    *)
(* must be zero, and the symbol file must list the in-memory labels.                             *)
EXTENDS FrontDefs, Json, IOUtils, FiniteSets
Trace == ndJsonDeserialize(IOEnv.TRACE_FILE)
VARIABLE i
Init == i = 0
Next == i < Len(Trace) /\ i' = i + 1

FlatCall(cl) == [j \in 1..Len(cl[2]) |-> <<cl[1] + j - 1, cl[2][j]>>]
Flat(calls) == Flatten([j \in 1..Len(calls) |-> FlatCall(calls[j])])

\* symbol file entries <<name, bank, offset>> against labels <<name, value>>: each label once
SymClause(r) ==
    LET want == {<<r.mem.labels[j][1], (r.mem.labels[j][2] \div 65536) % 256, r.mem.labels[j][2] % 65536>> : j \in 1..Len(r.mem.labels)}
        got == {<<r.sym[j][1], r.sym[j][2], r.sym[j][3]>> : j \in 1..Len(r.sym)} IN
    \* the label definitions the program makes (known from its construction), with multiplicity
    IF \E n \in {r.names[j] : j \in 1..Len(r.names)} :
           Cardinality({j \in 1..Len(r.sym) : r.sym[j][1] = n}) # Cardinality({j \in 1..Len(r.names) : r.names[j] = n})
       \/ Len(r.sym) # Len(r.names)
    THEN "symbol file does not list each label definition exactly once"
    ELSE IF got # want THEN "symbol file entries differ from the labels: " \o ToString((want \ got) \cup (got \ want))
    ELSE IF Len(r.sym) # Len(r.mem.labels) THEN "a label is listed more than once"
    ELSE "ok"

Clause(r) ==
    IF ~r.mem.ok THEN "in-memory reference failed (generator error)"
    ELSE IF r.raised \/ r.status # 0 \/ "file" \notin DOMAIN r THEN "front end failed on a program the in-memory API assembles"
    ELSE LET pairs == Flat(r.mem.calls)
             fc == IF r.format = "ips" THEN IpsFileClause(r.file, pairs, r.header) ELSE SfcFileClause(r.file, pairs) IN
         IF fc # "ok" THEN fc
         ELSE IF "sym" \in DOMAIN r THEN SymClause(r) ELSE "ok"

Judge == i = 0 \/ LET r == Trace[i] cl == Clause(r) IN
                  IF cl = "ok" THEN TRUE ELSE PrintT(ToJson([id |-> r.id, clause |-> cl]))
=============================================================================
