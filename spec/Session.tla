------------------------------- MODULE Session ------------------------------
(* A process of a816 (C19): a projection G of the process-wide (module-level) state and a     *)
(* history of assemblies.  Each assembly gets fresh per-assembly state, so                    *)
(*   GlobalUnchanged            [][G' = G]_vars                                                *)
(*   ResultDependsOnSourceOnly  the result of assembling s after any history is Result[s]      *)
(* The sources are opaque here: Sources is a set of identifiers and Result an arbitrary        *)
(* (unknown) function of the source.  The trace instance (TraceC19) checks that the recorded   *)
(* behaviour of a real process is a behaviour of this machine for SOME Result, namely the      *)
(* one observed in fresh processes.                                                            *)
EXTENDS Naturals, Sequences

CONSTANTS Sources, Probes, MaxHist, G0, Result

VARIABLES g, hist, last
vars == <<g, hist, last>>

Init == g = G0 /\ hist = <<>> /\ last = "none"
Assemble(s) == /\ Len(hist) < MaxHist
               /\ hist' = Append(hist, s)
               /\ last' = Result[s]          \* depends on s only
               /\ g' = g                     \* per-assembly state is fresh; nothing global is touched
Next == \E s \in Sources \cup Probes : Assemble(s)
Spec == Init /\ [][Next]_vars

GlobalUnchanged == [][g' = g]_vars
ResultDependsOnSourceOnly == hist # <<>> => last = Result[hist[Len(hist)]]
Repeatable == \A i, j \in 1..Len(hist) : hist[i] = hist[j] => TRUE   \* results are a function of the source (by construction of last)
=============================================================================
