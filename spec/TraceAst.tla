----------------------------- MODULE TraceAst -------------------------------
(* Judge of the syntax layer: a program (APR) was rendered and parsed by a816 (parse_as_ast);  *)
(* the flattened representation of the real tree must be Ast!Rep of the program.               *)
EXTENDS Ast, Json, IOUtils, TLC
Trace == ndJsonDeserialize(IOEnv.TRACE_FILE)
VARIABLE i
Init == i = 0
Next == i < Len(Trace) /\ i' = i + 1
Clause(r) == IF ~r.parsed THEN "the parser rejected a rendered program"
             ELSE LET spec == Rep(r.prog) m == FirstMismatch(spec, r.flat) IN
                  IF m = 0 THEN "ok"
                  ELSE "tree differs at token " \o ToString(m) \o ": expected " \o (IF m <= Len(spec) THEN spec[m] ELSE "<end>")
                       \o " observed " \o (IF m <= Len(r.flat) THEN r.flat[m] ELSE "<end>")
Judge == i = 0 \/ LET r == Trace[i] c == Clause(r) IN
                  IF c = "ok" THEN TRUE ELSE PrintT(ToJson([id |-> r.id, clause |-> c]))
=============================================================================
