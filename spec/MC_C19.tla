------------------------------ MODULE MC_C19 --------------------------------
(* Design level + generator for C19: all histories of at most MaxHist sources followed by a     *)
(* probe.  The instance of Session with opaque results shows the specified design has the        *)
(* property; Emit streams every (history, probe) for the harness to replay in one real process.  *)
EXTENDS Naturals, Sequences, TLC, Json, IOUtils

MaxHistC == atoi(IOEnv.MAXHIST)
SourcesC == {"valid", "macros", "syms", "table", "map", "map2", "high", "incbinA", "ipsA", "incA", "incfail",
             "failscan", "failparse", "failexpand", "faillabel", "failemit", "tableB", "fileA", "fileB", "fileFail", "scopeconst", "highbr", "positions"}
ProbesC  == {"p_plain", "p_usesmacro", "p_usessym", "p_text", "p_bank", "p_incbinB", "p_ipsB", "p_map", "p_incB", "p_tableC", "p_fileA", "p_fileC", "p_fileD", "p_usesscope", "p_lowbr", "p_incbinDash", "p_map64", "p_tableDup"}
ResultC  == [s \in SourcesC \cup ProbesC |-> <<"result-of", s>>]

VARIABLES g, hist, last
S == INSTANCE Session WITH Sources <- SourcesC, Probes <- {}, MaxHist <- MaxHistC, G0 <- "G0", Result <- ResultC

Init == S!Init
Next == S!Next
GlobalUnchanged == S!GlobalUnchanged
ResultDependsOnSourceOnly == S!ResultDependsOnSourceOnly
Emit == PrintT(ToJson([hist |-> hist, probes |-> ProbesC]))
=============================================================================
