----------------------------- MODULE TraceC04 -------------------------------
(* Pipeline B for C04: the real Bus / Address objects were evaluated and what they        *)
(* returned was recorded losslessly (affine runs).  Every record is judged against Bus.   *)
EXTENDS Bus, TLC, Json, IOUtils

Trace == ndJsonDeserialize(IOEnv.TRACE_FILE)
Pointwise == IOEnv.POINTS = "all"

VARIABLE i
Init == i = 0
Next == i < Len(Trace) /\ i' = i + 1

BusOf(r) == IF r.busname = "low" THEN LoROM ELSE IF r.busname = "high" THEN HiROM ELSE r.decls

Points(s, e) == IF Pointwise \/ e - s < 64 THEN s..e
                ELSE {s, s + 1, e - 1, e} \cup {s + ((e - s) * k) \div 17 : k \in 1..16}

\* "seg": get_address(a).physical for a in start..end was  phys + (a - start)  (cls "rom"),
\*        None (cls "ram"), or the lookup was rejected (cls "none")
SegClause(r) ==
    LET B == BusOf(r)
        bad == {a \in Points(r.start, r.end) :
                  LET c == Class(B, a) IN
                  ~( c = "oow"     \* ROM bank outside its window: the statement is silent
                     \/ (c = r.cls /\ (c = "rom" => Physical(B, a) = r.phys + (a - r.start))) )}
    IN IF bad = {} THEN "ok" ELSE "physical/class mismatch at " \o ToString(CHOOSE a \in bad : TRUE)

\* "adv": (get_address(a) + n).logical_value was res (or an exception: res = -1)
AdvClause(r) ==
    LET B == BusOf(r) c == Class(B, r.a) IN
    \* the address object produced by an advance must be the address of its logical value: same class,
    \* same file offset; an unmapped result is rejected
    IF r.res # -1 /\ r.res >= 0 /\ r.res < 16777216 /\ Class(B, r.res) = "none" THEN "advance produced an address in an unmapped bank"
    ELSE IF r.res # -1 /\ r.res >= 0 /\ r.res < 16777216 /\ Class(B, r.res) \in {"rom", "ram"} /\
            ~(r.rcls = Class(B, r.res) /\ (r.rcls = "rom" => r.rphys = Physical(B, r.res)))
         THEN "the advanced address object disagrees with the bus about its own class / offset"
    ELSE IF c \in {"rom", "ram"} /\ AdvanceDefined(B, r.a, r.n)
    THEN IF r.res = Advance(B, r.a, r.n) THEN "ok" ELSE "advance: expected " \o ToString(Advance(B, r.a, r.n))
    ELSE IF c = "none" THEN (IF r.res = -1 THEN "ok" ELSE "unmapped bank not rejected")
    ELSE "ok"   \* leaves the mapped range / out of window: outside the statement

\* "advseg": for a in start..end, (get_address(a) + n).logical_value = res + (a - start)
AdvSegClause(r) ==
    LET B == BusOf(r)
        bad == {a \in Points(r.start, r.end) :
                  Class(B, a) \in {"rom", "ram"} /\ AdvanceDefined(B, a, r.n)
                  /\ Advance(B, a, r.n) # r.res + (a - r.start)}
    IN IF bad = {} THEN "ok" ELSE "advance mismatch at " \o ToString(CHOOSE a \in bad : TRUE)

Clause(r) == CASE r.t = "seg" -> SegClause(r)
               [] r.t = "adv" -> AdvClause(r)
               [] r.t = "advseg" -> AdvSegClause(r)
               \* the configurations are valid declarations: declaring one must not fail
               [] r.t = "construct" -> IF r.ok THEN "ok" ELSE "declaring a valid mapping failed"

Judge == i = 0 \/ LET r == Trace[i] c == Clause(r) IN
                  IF c = "ok" THEN TRUE ELSE PrintT(ToJson([id |-> r.id, clause |-> c]))
=============================================================================
