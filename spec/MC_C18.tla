------------------------------ MODULE MC_C18 --------------------------------
(* Design level for C18: every table of 1..3 entries from a menu (single/multi-character    *)
(* texts, 1- and 2-byte codes, overlapping prefixes, duplicate texts and codes) x every       *)
(* string of <= MaxStr symbols over {a, b, c(unknown), [0x41]}; the encoder machine is        *)
(* stepped one position at a time and the laws are invariants of every step.                  *)
EXTENDS Table, TLC, Json, IOUtils, FiniteSets

MaxStr == atoi(IOEnv.MAXSTR)
GenOnly == IOEnv.GEN = "1"

E(text, code) == [text |-> text, code |-> code]
Menu == { E(<<"a">>, <<1>>), E(<<"b">>, <<2>>), E(<<"a", "b">>, <<3>>), E(<<"b", "a">>, <<1, 2>>),
          E(<<"a", "a">>, <<65>>), E(<<"a", "b", "c">>, <<1, 1>>), E(<<"a">>, <<2, 1>>), E(<<"b">>, <<1>>),
          E(<<"c", "a">>, <<255>>), E(<<"a", "b">>, <<2>>), E(<<"b">>, <<0, 65>>), E(<<"a">>, <<0>>) }
\* tables as sequences: all orderings of 1..3 distinct menu entries would be 820; order matters only
\* for duplicate texts/codes, so take subsets in a fixed order plus the reversed order
Reverse(q) == [j \in 1..Len(q) |-> q[Len(q) + 1 - j]]
SeqOf(S) == LET RECURSIVE F(_)
                F(T) == IF T = {} THEN <<>> ELSE LET x == CHOOSE y \in T : TRUE IN <<x>> \o F(T \ {x})
            IN F(S)
Tables == LET subs == {S \in SUBSET Menu : Cardinality(S) \in 1..3} IN
          {SeqOf(S) : S \in subs} \cup {Reverse(SeqOf(S)) : S \in subs}

Sym == { [k |-> "c", v |-> "a"], [k |-> "c", v |-> "b"], [k |-> "c", v |-> "c"], [k |-> "j", v |-> 65] }
Strings == UNION { [1..n -> Sym] : n \in 0..MaxStr }

VARIABLES tbl, s, st, picked
vars == <<tbl, s, st, picked>>
Init == tbl = <<>> /\ s = <<>> /\ st = EncInit /\ picked = FALSE
Pick == /\ ~picked /\ picked' = TRUE /\ st' = EncInit
        /\ \E t \in Tables : tbl' = t
        /\ IF GenOnly THEN s' = <<>> ELSE \E x \in Strings : s' = x
Step == picked /\ ~GenOnly /\ ~EncDone(st, s) /\ st' = EncStep(tbl, s, st) /\ UNCHANGED <<tbl, s, picked>>
Next == Pick \/ Step

Last == st.hist[Len(st.hist)]
\* the characters from position p up to the next escape or the end
Plain(p) == LET stops == {j \in p..Len(s) : ~IsChar(s[j])}
                e == IF stops = {} THEN Len(s) ELSE (CHOOSE j \in stops : \A m \in stops : j <= m) - 1
            IN Chars(s, p, e - p + 1)

GreedyLongest == (st.hist # <<>> /\ Last.kind = "entry") =>
    LET r == Plain(Last.at) IN
    /\ SubSeq(r, 1, Last.n) \in Texts(tbl)
    /\ \A t \in Texts(tbl) : IsPrefix(t, r) => Len(t) <= Last.n
UnknownSkipped == (st.hist # <<>> /\ Last.kind = "skip") =>
    /\ IsChar(s[Last.at])
    /\ \A t \in Texts(tbl) : ~IsPrefix(t, Plain(Last.at))
JokerRaw == (st.hist # <<>> /\ Last.kind = "joker") => (s[Last.at].k = "j" /\ st.out[Len(st.out)] = s[Last.at].v)
Contribution(h) == IF h.kind = "entry" THEN Len(CodeOf(tbl, Chars(s, h.at, h.n))) ELSE IF h.kind = "joker" THEN 1 ELSE 0
SizeEqualsBytes == Len(st.out) = SeqSum([j \in 1..Len(st.hist) |-> Contribution(st.hist[j])])
Progress == st.p = 1 + SeqSum([j \in 1..Len(st.hist) |-> st.hist[j].n])
RoundTrip == (picked /\ EncDone(st, s) /\ CleanTable(tbl) /\ NoJoker(s)) => Decode(tbl, st.out) = MatchedTexts(tbl, s)
SingleCharRoundTrip ==
    (picked /\ EncDone(st, s) /\ CleanTable(tbl) /\ NoJoker(s) /\ (\A j \in 1..Len(tbl) : Len(tbl[j].text) = 1)
       /\ (\A j \in 1..Len(s) : <<s[j].v>> \in Texts(tbl)))
    => Flatten(Decode(tbl, st.out)) = [j \in 1..Len(s) |-> s[j].v]

Emit == (GenOnly /\ picked) => PrintT(ToJson([table |-> tbl]))
=============================================================================
