-------------------------------- MODULE Bus ---------------------------------
(* The address bus of a816 (a816/cpu/mapping.py, a816/symbols.py buses).                 *)
(* A bus is a sequence of map declarations, later declarations overriding earlier ones    *)
(* for the banks they name (Bus.map fills a bank -> identifier lookup in call order).     *)
(* Each declaration: primary bank range b0..b1, optional mirror range m0..m1 (m0 = -1     *)
(* when absent), bank window lo..hi, bank size `mask` (0x8000 or 0x10000), ram flag.     *)
(*                                                                                        *)
(* Property C04 is stated on this module:                                                 *)
(*   Physical = (bank - first bank of its range) * bank size + position inside the window *)
(*   mirror banks give the offset of their primary bank, RAM has no offset, unmapped      *)
(*   banks are rejected; Advance(a,n) is the address of the same range whose offset is    *)
(*   n larger, inside the window.                                                         *)
EXTENDS Util

Bank(a) == a \div 65536
Off(a)  == a % 65536

NoMirror == -1

MapDecl(id, b0, b1, lo, hi, mask, ram, m0, m1) ==
    [id |-> id, b0 |-> b0, b1 |-> b1, lo |-> lo, hi |-> hi, mask |-> mask, ram |-> ram, m0 |-> m0, m1 |-> m1]

LoROM == << MapDecl("1", 0, 111, 32768, 65535, 32768, FALSE, 128, 207),
            MapDecl("2", 126, 127, 0, 65535, 65536, TRUE, NoMirror, NoMirror) >>

HiROM == << MapDecl("1", 64, 127, 0, 65535, 65536, FALSE, 192, 255),
            MapDecl("2", 126, 127, 0, 65535, 65536, TRUE, NoMirror, NoMirror) >>

InPrimary(m, b) == m.b0 <= b /\ b <= m.b1
InMirror(m, b)  == m.m0 # NoMirror /\ m.m0 <= b /\ b <= m.m1
Covers(m, b)    == InPrimary(m, b) \/ InMirror(m, b)

\* Index of the declaration that owns bank b (0 = unmapped).  Within one declaration the
\* mirror range is registered after the primary range, so it wins where both name b.
Owner(bus, b) ==
    LET S == {k \in 1..Len(bus) : Covers(bus[k], b)}
    IN IF S = {} THEN 0 ELSE CHOOSE k \in S : \A j \in S : j <= k

\* first bank of the range (primary or mirror) through which bank b is reached
RangeFirst(m, b) == IF InMirror(m, b) THEN m.m0 ELSE m.b0
RangeLast(m, b)  == IF InMirror(m, b) THEN m.m1 ELSE m.b1

Unmapped(bus, a) == Owner(bus, Bank(a)) = 0
IsRam(bus, a)    == ~Unmapped(bus, a) /\ bus[Owner(bus, Bank(a))].ram
IsRom(bus, a)    == ~Unmapped(bus, a) /\ ~bus[Owner(bus, Bank(a))].ram
InWindow(bus, a) == ~Unmapped(bus, a) /\ LET m == bus[Owner(bus, Bank(a))] IN m.lo <= Off(a) /\ Off(a) <= m.hi

\* Class of an address: what C04 says about it.
\*   "rom"  : in-window ROM address, has an offset          "ram" : RAM, no offset
\*   "none" : unmapped bank, rejected                        "oow" : ROM bank but outside the window
\*                                                                     (the statement is silent: Unspecified)
Class(bus, a) == IF Unmapped(bus, a) THEN "none"
                 ELSE IF IsRam(bus, a) THEN "ram"
                 ELSE IF InWindow(bus, a) THEN "rom" ELSE "oow"

\* File offset of an in-window ROM address.
Physical(bus, a) ==
    LET m == bus[Owner(bus, Bank(a))]
    IN (Bank(a) - RangeFirst(m, Bank(a))) * m.mask + (Off(a) - m.lo)

\* Logical address of offset p in the range (primary/mirror) that bank b belongs to.
Logical(m, b, p) == (RangeFirst(m, b) + p \div m.mask) * 65536 + m.lo + (p % m.mask)

\* Advance stays defined while the result is still inside the same bank range.
AdvanceDefined(bus, a, n) ==
    LET m == bus[Owner(bus, Bank(a))]
        \* bank reached; it must lie in the same range and still be owned by the same declaration
        b2 == IF m.ram THEN Bank(a + n) ELSE RangeFirst(m, Bank(a)) + (Physical(bus, a) + n) \div m.mask
    IN /\ Class(bus, a) \in {"rom", "ram"}
       /\ b2 <= RangeLast(m, Bank(a)) /\ b2 <= 255
       /\ Owner(bus, b2) = Owner(bus, Bank(a))
       /\ (m.ram \/ InMirror(m, b2) = InMirror(m, Bank(a)))

Advance(bus, a, n) ==
    LET m == bus[Owner(bus, Bank(a))]
    IN IF m.ram THEN a + n ELSE Logical(m, Bank(a), Physical(bus, a) + n)

\* ---- a declaration is well formed (what `.map` generators produce) ------------------
WellFormedDecl(m) ==
    /\ 0 <= m.b0 /\ m.b0 <= m.b1 /\ m.b1 <= 255
    /\ m.mask \in {32768, 65536}
    /\ m.hi - m.lo + 1 = m.mask /\ m.lo \in {0, 32768} /\ m.hi <= 65535
    /\ (m.m0 = NoMirror \/ (0 <= m.m0 /\ m.m0 <= m.m1 /\ m.m1 <= 255 /\ m.m1 - m.m0 = m.b1 - m.b0))

Disjoint(bus) == \A j, k \in 1..Len(bus) : j # k =>
                    \A b \in 0..255 : ~(Covers(bus[j], b) /\ Covers(bus[k], b))

\* generated `.map` style buses: every well-formed single ROM declaration over a small menu
Menu == { MapDecl("1", b0, b0 + len - 1, lo, lo + mask - 1, mask, FALSE, m0, IF m0 = NoMirror THEN NoMirror ELSE m0 + len - 1) :
            b0 \in {0, 16, 64}, len \in {1, 2, 48}, lo \in {0, 32768}, mask \in {32768, 65536}, m0 \in {NoMirror, 128, 192} }
GenBuses == { << m, MapDecl("2", 126, 127, 0, 65535, 65536, TRUE, NoMirror, NoMirror) >> :
              m \in {d \in Menu : WellFormedDecl(d) /\ d.b1 < 126 } }
            \* a later declaration carving RAM out of an earlier, wider ROM range (as the built-in HiROM bus does)
            \cup { << MapDecl("1", 64, 127, 0, 65535, 65536, FALSE, 192, 255), MapDecl("2", 126, 127, 0, 65535, 65536, TRUE, NoMirror, NoMirror) >>,
                   << MapDecl("1", 0, 63, 32768, 65535, 32768, FALSE, 128, 191), MapDecl("2", 32, 33, 0, 65535, 65536, TRUE, NoMirror, NoMirror) >>,
                   \* a writable range with a mirror: the mirror banks are RAM as well (no storage offset)
                   << MapDecl("1", 0, 63, 32768, 65535, 32768, FALSE, 128, 191), MapDecl("2", 126, 127, 0, 65535, 65536, TRUE, 254, 255) >>,
                   << MapDecl("1", 64, 64, 0, 65535, 65536, FALSE, NoMirror, NoMirror), MapDecl("2", 112, 112, 0, 65535, 65536, TRUE, 240, 240) >> }

=============================================================================
