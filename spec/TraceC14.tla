----------------------------- MODULE TraceC14 -------------------------------
(* Judge for C14: each record is one real invocation of an entry point on a program with (or    *)
(* without) one definite fault.  Front says what the caller must have been told.                *)
EXTENDS FrontDefs, Json, IOUtils
Trace == ndJsonDeserialize(IOEnv.TRACE_FILE)
VARIABLE i
Init == i = 0
Next == i < Len(Trace) /\ i' = i + 1
Clause(r) ==
    IF r.fault = "none"
    THEN (IF ReportedSuccess(r.entry, r.obs) THEN "ok" ELSE "fault-free program not reported as success")
    ELSE (IF ReportedFailure(r.entry, r.obs) THEN "ok"
          ELSE "failure in phase " \o PhaseOf(r.fault) \o " (" \o r.fault \o ") reported as success by " \o r.entry)
Judge == i = 0 \/ LET r == Trace[i] cl == Clause(r) IN
                  IF cl = "ok" THEN TRUE ELSE PrintT(ToJson([id |-> r.id, clause |-> cl]))
=============================================================================
