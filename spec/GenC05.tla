------------------------------ MODULE GenC05 --------------------------------
(* Pipeline A for C05: the case machine for relative branches.  A case is (mnemonic,         *)
(* displacement, placement, relocation, mapping, target form); the vector is the APR program. *)
EXTENDS Asm, Json, IOUtils

Full == IOEnv.FULL = "1"
Shard == atoi(IOEnv.SHARD)
NShards == atoi(IOEnv.NSHARDS)

N(v) == [k |-> "num", v |-> v]
I(n) == [k |-> "id", n |-> n]
Plus(e, d) == IF d >= 0 THEN [k |-> "bin", o |-> "+", l |-> e, r |-> N(d)] ELSE [k |-> "bin", o |-> "-", l |-> e, r |-> N(0 - d)]
Lab(n) == [k |-> "label", n |-> n]
Pad(n) == [k |-> "ascii", s |-> [j \in 1..n |-> 65 + (j % 26)]]
Br(mn, e) == [k |-> "branch", mn |-> mn, e |-> e]
Star(a) == [k |-> "stareq", e |-> N(a)]
At(a) == [k |-> "ateq", e |-> N(a)]

Mns == {"bpl", "bmi", "bvc", "bvs", "bra", "bcc", "bcs", "bne", "beq"}
AllD == (0 - 140)..140
EdgeD == {0 - 140, 0 - 130, 0 - 129, 0 - 128, 0 - 127, 0 - 126, 0 - 3, 0 - 2, 0 - 1, 0, 1, 2, 125, 126, 127, 128, 129, 130, 140}
Ds(mn) == IF Full \/ mn = "bra" THEN AllD ELSE EdgeD

\* window start / middle / 3, 2, 1 bytes before the window end, per mapping
\* "custom": a user-declared bus (.map): LoROM-like ROM in banks 00-1F mirrored at 80-9F, RAM 7E-7F declared writable=1
CustomDecls == << MapDecl("1", 0, 31, 32768, 65535, 32768, FALSE, 128, 159), MapDecl("2", 126, 127, 0, 65535, 65536, TRUE, NoMirror, NoMirror) >>
Places(rom) == IF rom \in {"low", "custom"} THEN {32768 + 200, 49152, 65533 - 2, 65533, 65534} ELSE {12582912 + 200, 12615680, 12648445 - 2, 12648445, 12648446, 16646144 + 200}     \* (last: bank 0xFE, the end of the HiROM mirror)
RelocRom(rom) == IF rom \in {"low", "custom"} THEN 163840 + 300 ELSE 12845056 + 300      \* 0x028000 / 0xC40000 (+300)
RomStart(rom) == IF rom \in {"low", "custom"} THEN 32768 ELSE 12582912
Ram == 8265728                                                              \* 0x7E2000

\* the branch sits at run address A (after the moves); target = A + 2 + d
\* form "expr": `here: bra here + 2 + d`      form "label": padding and a label at the target
\* form "literal": the target written as one number (A = the branch's own run address)
Body(mn, d, form, A) ==
    IF form = "literal" THEN << Br(mn, N(A + 2 + d)) >>
    ELSE IF form = "expr" THEN << Lab("here"), Br(mn, Plus(I("here"), 2 + d)) >>
    ELSE IF d >= 0 THEN << Br(mn, I("target")), Pad(d), Lab("target"), [k |-> "data", d |-> "db", es |-> <<N(234)>>] >>
    ELSE << Lab("target"), Pad(0 - d - 2), Br(mn, I("target")) >>

\* where the first byte of Body must be placed so that the branch itself is at A
Lead(d, form) == IF form = "label" /\ d < 0 THEN 0 - d - 2 ELSE 0

Program(rom, mn, d, place, reloc, form) ==
    LET lead == Lead(d, form)
        pre == CASE reloc = "none"   -> << Star(place - lead) >>
                 [] reloc = "rom"    -> << Star(place), At(RelocRom(rom) - lead) >>
                 [] reloc = "ram"    -> << Star(place), At(Ram - lead) >>
                 \* relocated to run at the very first ROM byte (file offset 0) from somewhere else
                 [] reloc = "rom0"   -> << Star(place), At(RomStart(rom)) >>
                 [] reloc = "ram2rom" -> << Star(place), Lab("romtarget"), [k |-> "data", d |-> "db", es |-> <<N(96)>>], At(Ram) >>
        A == CASE reloc = "none" -> place [] reloc = "rom" -> RelocRom(rom) [] reloc = "ram" -> Ram [] reloc = "rom0" -> RomStart(rom)
               [] OTHER -> 0
        body == IF reloc = "ram2rom" THEN << Br(mn, Plus(I("romtarget"), d)) >> ELSE Body(mn, d, form, A)
        maps == IF rom = "custom" THEN [j \in 1..Len(CustomDecls) |-> [k |-> "map", decl |-> CustomDecls[j]]] ELSE <<>>
    IN [rom |-> IF rom = "custom" THEN "low" ELSE rom, defines |-> <<>>, body |-> maps \o pre \o body]

Forms(d) == IF d >= -1 \/ d < -1 THEN (IF d = -1 THEN {"expr"} ELSE {"expr", "label"}) ELSE {}

VARIABLE c
Init == c = <<>>
Next == c = <<>> /\ \E rom \in {"low", "high", "custom"}, mn \in Mns, reloc \in {"none", "rom", "ram", "ram2rom", "rom0"} :
          \E d \in Ds(mn), place \in Places(rom), form \in {"expr", "label", "literal"} :
            /\ (d % NShards) = Shard
            /\ (form = "literal" \/ form \in Forms(d))
            /\ (form = "literal" => d \in EdgeD)
            /\ (rom = "custom" => (d \in EdgeD /\ mn \in {"bra", "bne", "bcc"}))
            /\ (reloc = "ram2rom" => (form = "expr" /\ d \in {0 - 2, 0, 5}))
            /\ (reloc = "rom0" => (form = "expr" \/ d >= 0))     \* nothing may be placed below the first ROM byte
            \* the label form needs room before the place for the padding
            /\ c' = [rom |-> rom, mn |-> mn, d |-> d, place |-> place, reloc |-> reloc, form |-> form]
Emit == c = <<>> \/ PrintT(ToJson([case |-> c, prog |-> Program(c.rom, c.mn, c.d, c.place, c.reloc, c.form)]))

\* design level: what the spec says about each case (C05 as an invariant of the Asm machine)
Sound == c = <<>> \/
    LET r == Spec(Program(c.rom, c.mn, c.d, c.place, c.reloc, c.form)) IN
    /\ (c.reloc \in {"ram", "ram2rom"} => r.outcome \in {"fail", "unspec"})           \* never encoded against the storage offset
    /\ (r.outcome = "ok" => (c.d >= -128 /\ c.d <= 127))                               \* never truncated or wrapped into range
    /\ (r.outcome = "ok" => \E j \in 1..(Len(r.img) - 1) :
            r.img[j][2] = Opcode(c.mn, "rel8") /\ r.img[j + 1][2] = c.d % 256)
=============================================================================
