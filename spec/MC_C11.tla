------------------------------ MODULE MC_C11 --------------------------------
(* Design level for C11 on a scaled instance: every history of at most MaxBlocks writes     *)
(* (all addresses 0..Limit+1 and -1, all lengths 0..MaxLen, header on/off) through the      *)
(* writer as specified, read back by the independent reader.                                *)
EXTENDS Ips, TLC, IOUtils

K == [maxrec |-> 3, hdr |-> 4, eof |-> 21, limit |-> 32]
MaxBlocks == atoi(IOEnv.MAXBLOCKS)
MaxLen == 7
SplitAt == atoi(IOEnv.SPLITAT)            \* 3 = as specified; 4 = spec mutant
Avoid == IOEnv.AVOID = "1"                \* "0" = spec mutant (pinned behaviour)
Addrs == IF IOEnv.ADDRS = "edge" THEN {-1, 0, 1, 14, 15, 16, 17, 18, 19, 20, 21, 22, 28, 29, 30, 31, 32, 33} ELSE (-1..34)

VARIABLES header, file, hist, refused, closed
vars == <<header, file, hist, refused, closed>>

Init == header \in BOOLEAN /\ file = Magic /\ hist = <<>> /\ refused = 0 /\ closed = FALSE

Write(addr, len) ==
    /\ ~closed /\ Len(hist) + refused < MaxBlocks
    /\ LET w == [addr |-> addr, data |-> [j \in 1..len |-> 16 * (Len(hist) + 1) + j]]
           r == WriteBlock(w, K, header, SplitAt, Avoid)
       IN IF r.refused
          THEN /\ Assert(~Representable(w, K, header) \/ StartsAtMarker(w, K, header), "unjustified refusal")
               /\ refused' = refused + 1 /\ UNCHANGED <<file, hist>>
          ELSE /\ file' = file \o Flatten([j \in 1..Len(r.recs) |-> EncodeRec(r.recs[j])])
               /\ hist' = Append(hist, w) /\ UNCHANGED refused
    /\ UNCHANGED <<header, closed>>
End == ~closed /\ closed' = TRUE /\ file' = file \o Marker(K) /\ UNCHANGED <<header, hist, refused>>
Next == End \/ \E a \in Addrs, n \in 0..MaxLen : Write(a, n)

\* expected image: each accepted block at its (shifted) address, in write order
RECURSIVE Expected(_, _, _)
Expected(j, img, sh) == IF j > Len(hist) THEN img ELSE Expected(j + 1, WriteAt(img, hist[j].addr + sh, hist[j].data), sh)

WellFormedFile   == closed => WellFormed(file, K)
FileAccepted     == closed => FileClause(file, hist, K, header) = "ok"
PatchesExactly   == closed => Apply(Read(file, K).recs) = Expected(1, << >>, Shift(K, header))
\* accepted writes are representable: nothing is wrapped
NothingWrapped   == \A j \in 1..Len(hist) : Representable(hist[j], K, header)
\* a write is refused only when IPS cannot represent it (refusal is not a way to pass):
\* asserted inside Write (an action property over all (a, n) made TLC 30x slower)
=============================================================================
