------------------------------ MODULE Progress ------------------------------
(* The progress contract of scanner, parser and expander (C15).                               *)
(* The scanner is a loop over state-function calls; each call must end and must either         *)
(* consume input, emit a token or raise.  With n = input length the whole scan needs at most    *)
(* ScanBudget(n) primitive operations (next / peek / accept / accept_prefix); the parser at     *)
(* most ParseBudget(t) token operations for t tokens.  The budgets are generous quadratic        *)
(* bounds: every correct run is far below them, a loop that does not advance exceeds any         *)
(* bound.  The lexeme alphabet and the length bounds of the exhaustive input family are          *)
(* constants of this module (the harness enumerates the product; "<nul>" stands for a NUL byte,
   "<eacute>" "<lambda>" "<uuml>" "<nbsp>" "<emoji>" for non-ASCII characters).                                        *)
EXTENDS Naturals, Sequences

ScanBudget(n)  == 40 * (n + 2) * (n + 2) + 1000
ParseBudget(t) == 40 * (t + 2) * (t + 2) + 1000
\* expansion: nodes produced are bounded by the source size times the explicit loop counts
ExpandBudget(n) == 4000 * (n + 2)

Lexemes == << "lda", "sta.w", "nop", "bra", ".db", ".dw", ".text", ".ascii", ".macro", ".if", ".for", ".scope", ".include",
              ".incbin", ".table", ".map", ".struct", "else", "label:", "name", "name.sub", "0x1F", "12", "0b101", "0x",
              "'abc'", "'abc", "'", "/*", "*/", "/* c */", ";", "; c", "{", "}", "{{", "}}", "(", ")", "[", "]", ",", "#",
              "+", "-", "*", "<<", ">", "=", ":=", "*=", "@=", ".b", ",x", ",q", ".", "\\", "!", "\n", " ", "\t", "<nul>", "<eacute>", "<lambda>x", "na<uuml>me", "<nbsp>", "<emoji>" >>
QuickLen == 3
ThoroughLen == 4

\* an observation of one run: [len, tokens, scan_ops, parse_ops, max_call_ops, stalled_calls, budget_hit, hang, outcome]
Clause(o) ==
    IF o.hang THEN "did not terminate (watchdog)"
    ELSE IF o.budget_hit THEN "step budget exceeded: a loop does not advance"
    ELSE IF o.scan_ops > ScanBudget(o.len) THEN "scanner operations above the bound"
    ELSE IF o.parse_ops > ParseBudget(o.tokens) THEN "parser operations above the bound"
    ELSE IF o.outcome \notin {"ok", "error"} THEN "finished with neither an output nor a reported error"
    ELSE "ok"
=============================================================================
