----------------------------- MODULE TraceC16 -------------------------------
(* Judge for C16: a re-laid-out variant of a base program was assembled; its observable result   *)
(* (outcome, ordered writer image, labels) must equal the base program's.                        *)
EXTENDS Naturals, Sequences, TLC, Json, IOUtils
Trace == ndJsonDeserialize(IOEnv.TRACE_FILE)
VARIABLE i
Init == i = 0
Next == i < Len(Trace) /\ i' = i + 1
FlatCall(c) == [j \in 1..Len(c[2]) |-> <<c[1] + j - 1, c[2][j]>>]
RECURSIVE FlatFrom(_, _)
FlatFrom(calls, j) == IF j > Len(calls) THEN <<>> ELSE FlatCall(calls[j]) \o FlatFrom(calls, j + 1)
Flat(calls) == FlatFrom(calls, 1)
Clause(r) ==
    IF ~r.base.ok THEN "base program does not assemble (generator error)"
    ELSE IF ~r.var.ok THEN "re-laid-out source is rejected"
    ELSE IF Flat(r.var.calls) # Flat(r.base.calls) THEN "emitted bytes or offsets changed"
    ELSE IF r.var.labels # r.base.labels THEN "symbol values changed"
    ELSE "ok"
Judge == i = 0 \/ LET r == Trace[i] c == Clause(r) IN
                  IF c = "ok" THEN TRUE ELSE PrintT(ToJson([id |-> r.id, clause |-> c]))
=============================================================================
