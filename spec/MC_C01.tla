------------------------------ MODULE MC_C01 --------------------------------
(* Design level for C01: the transcription of the ISA matrix is self-consistent, the       *)
(* width rule is total and minimal, and the frozen supported set lies inside the ISA.      *)
EXTENDS Instr, IsaSupported, TLC
VARIABLE u
Init == u = 0
Next == u = 0 /\ u' = 1
\* ---- design-level properties of this module -----------------------------------------
WidthMinimal == \A v \in {0, 1, 127, 255, 256, 65535, 65536, 16777215} :
                   LET w == MinWidth(v) IN w \in 1..3 /\ v < Pow256(w) /\ (w > 1 => v >= Pow256(w - 1))
LengthIsOnePlusWidth == \A mn \in {"lda", "jmp", "sta"}, sh \in GoodShapes, w \in 0..3 :
                   IsaDefined(mn, sh, w) => Len(Encoding(mn, sh, w, 74565)) = 1 + w
\* distinct defined (mnemonic, shape, width) never share an opcode byte unless they are the
\* two widths of one immediate (the CPU decides by its m/x flag) or documented aliases
DefinedTriples == {t \in Mnemonics \X GoodShapes \X (0..3) : IsaDefined(t[1], t[2], t[3])}
NoAliasing == \A t1 \in DefinedTriples, t2 \in DefinedTriples :
                 Opcode(t1[1], ModeOf(t1[2], t1[3])) = Opcode(t2[1], ModeOf(t2[2], t2[3]))
                 => Alias(t1[1], ModeOf(t1[2], t1[3])) = Alias(t2[1], ModeOf(t2[2], t2[3]))
\* every opcode byte except the relative/block-move/stack forms (which this syntax cannot write) is
\* denoted by some (mnemonic, shape, width)
Reachable == {Opcode(t[1], ModeOf(t[2], t[3])) : t \in DefinedTriples}
SyntaxCoversMatrix == \A b \in 0..255 : b \in Reachable \/ Matrix[b + 1][2] \in {"rel8", "rel16", "bm"}
SupportedIsDefined == \A t \in Supported : IsaDefined(t[1], t[2], t[3])
=============================================================================
