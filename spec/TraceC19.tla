----------------------------- MODULE TraceC19 -------------------------------
(* Judge for C19: one record = one real process that ran a history of assemblies and then a     *)
(* probe (twice).  Each step logged the global projection and the assembly's result.  The        *)
(* record also carries, for every source involved, the result observed in a fresh process.       *)
(* The behaviour is accepted iff it is a behaviour of Session with Result = the fresh results:   *)
(*   every step leaves g = G0 (GlobalUnchanged) and returns Result[source].                      *)
EXTENDS Naturals, Sequences, TLC, Json, IOUtils, FiniteSets

Trace == ndJsonDeserialize(IOEnv.TRACE_FILE)
VARIABLE i
Init == i = 0
Next == i < Len(Trace) /\ i' = i + 1

Changed(g0, g) == {k \in DOMAIN g0 \cup DOMAIN g : k \notin DOMAIN g0 \/ k \notin DOMAIN g \/ g0[k] # g[k]}

\* The verdict is on the property's observables only: the result of every assembly of the history equals the
\* result of the same source in a fresh process (hence repeatability).  A change of the global projection is the
\* MECHANISM by which independence is usually lost; it is reported as a diagnostic (clause "drift: ...") and does
\* not by itself fail the check (a harmless cache would change it too).
BadSteps(r) == {j \in 1..Len(r.steps) : r.steps[j].res # r.fresh[r.steps[j].src]}
GSteps(r) == {j \in 1..Len(r.steps) : r.steps[j].g # r.g0}

Clause(r) ==
    LET B == BadSteps(r) IN
    IF B # {} THEN LET j == CHOOSE x \in B : \A y \in B : x <= y IN
                   "result of " \o r.steps[j].src \o " at step " \o ToString(j) \o " differs from a fresh process"
    ELSE IF GSteps(r) # {} THEN LET j == CHOOSE x \in GSteps(r) : \A y \in GSteps(r) : x <= y IN
                   "drift: global state changed by step " \o ToString(j) \o " (" \o r.steps[j].src \o "): " \o ToString(Changed(r.g0, r.steps[j].g))
    ELSE "ok"

Judge == i = 0 \/ LET r == Trace[i] c == Clause(r) IN
                  IF c = "ok" THEN TRUE ELSE PrintT(ToJson([id |-> r.id, clause |-> c]))
=============================================================================
