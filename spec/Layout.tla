------------------------------- MODULE Layout -------------------------------
(* Presentation of a source (C16).  A base program is a sequence of lines, each a sequence of   *)
(* pieces [t, s, u]: type, text, text with the case-insensitive letters upper-cased.            *)
(*   t: mn sfx idx hex (case may flip)  op comma lb rb (spaces may be added)  sp (mandatory      *)
(*      space)  other (anything else)                                                            *)
(* The state is the set of presentation changes applied; each action adds one:                   *)
(*   blank / indent / tabindent / trail / fullc / eolc / blockc   on a line                      *)
(*   spb / spa (space before / after an operator, comma or bracket), up (flip case) on a piece   *)
(*   rm   (remove a blank of the base text next to an operator, `=` / `:=` or a comma)            *)
(*   inc  (move a run of whole top-level statements into an included file)                       *)
(*   nofinalnl (the main file ends without a line end)                                           *)
(* Render gives the physical lines of the main file and of the included file.  The abstraction   *)
(* function (the pieces in order, ignoring the annotations) is unchanged by every action.        *)
EXTENDS Naturals, Sequences, FiniteSets, TLC, Json, IOUtils

Base == JsonDeserialize(IOEnv.BASE_FILE)
MaxActs == atoi(IOEnv.MAXACTS)
Lines == Base.lines
NL == Len(Lines)

Act(a, i, j) == [a |-> a, i |-> i, j |-> j]
LineKinds == {"blank", "indent", "tabindent", "trail", "fullc", "eolc", "blockc", "blockc2", "blockc3"}
LineActs == {Act(a, i, 0) : a \in LineKinds, i \in 1..NL}
PActs(i, j) == LET p == Lines[i][j] IN
                 (IF p.t \in {"op", "comma", "asg"} THEN {Act("spb", i, j), Act("spa", i, j)} ELSE {})
                 \* a blank of the base text that stands next to an operator, `=`/`:=` or a comma may also be removed
                 \cup (IF p.t = "sp" /\ ( (j > 1 /\ Lines[i][j - 1].t \in {"op", "comma", "asg"})
                                         \/ (j < Len(Lines[i]) /\ Lines[i][j + 1].t \in {"op", "comma", "asg"}) )
                      THEN {Act("rm", i, j)} ELSE {})
                 \cup (IF p.t = "lb" THEN {Act("spa", i, j)} ELSE {})
                 \cup (IF p.t = "rb" THEN {Act("spb", i, j)} ELSE {})
                 \cup (IF p.u # p.s THEN {Act("up", i, j)} ELSE {})
                 \* a mnemonic may also be written in mixed case (first letter upper, the rest lower)
                 \cup (IF "m" \in DOMAIN p /\ p.m # p.s THEN {Act("mix", i, j)} ELSE {})
PieceActs == UNION { UNION { PActs(i, j) : j \in 1..Len(Lines[i]) } : i \in 1..NL }
IncActs == {Act("inc", Base.runs[r][1], Base.runs[r][2]) : r \in 1..Len(Base.runs)}
\* the source text ends without a line end
AllActs == LineActs \cup PieceActs \cup IncActs \cup {Act("nofinalnl", 0, 0)}

VARIABLE acts
Init == acts = {}
Next == /\ Cardinality(acts) < MaxActs
        /\ \E x \in AllActs \ acts :
             /\ (x.a = "inc" => ~\E y \in acts : y.a = "inc")
             /\ (x.a \in {"indent", "tabindent"} => ~\E y \in acts : y.i = x.i /\ y.a \in {"indent", "tabindent"})
             /\ acts' = acts \cup {x}

Has(a, i, j) == Act(a, i, j) \in acts

RECURSIVE Cat(_)
Cat(ss) == IF ss = <<>> THEN "" ELSE Head(ss) \o Cat(Tail(ss))

PieceText(i, j) ==
    LET p == Lines[i][j] IN
    IF Has("rm", i, j) THEN ""
    ELSE (IF Has("spb", i, j) THEN " " ELSE "") \o (IF Has("mix", i, j) THEN p.m ELSE IF Has("up", i, j) THEN p.u ELSE p.s)
         \o (IF Has("spa", i, j) THEN "  " ELSE "")

StmtLine(i) ==
    (IF Has("indent", i, 0) THEN "     " ELSE IF Has("tabindent", i, 0) THEN "\t" ELSE "")
    \o Cat([j \in 1..Len(Lines[i]) |-> PieceText(i, j)])
    \o (IF Has("trail", i, 0) THEN "   " ELSE "")
    \o (IF Has("eolc", i, 0) THEN " ; a comment: lda #1, 'x' { } */" ELSE "")

\* the physical lines line i contributes
Phys(i) ==
    (IF Has("blank", i, 0) THEN <<"", "   ">> ELSE <<>>)
    \o (IF Has("fullc", i, 0) THEN <<"; full line comment lda.w #0x12">> ELSE <<>>)
    \o (IF Has("blockc", i, 0) THEN <<"/* a block comment", "   lda.w #0x34 ; over { two lines */">> ELSE <<>>)
    \o (IF Has("blockc2", i, 0) THEN <<"/* note **/">> ELSE <<>>)
    \o (IF Has("blockc3", i, 0) THEN <<"/***/", "/**** boxed ****/">> ELSE <<>>)
    \o <<StmtLine(i)>>

RECURSIVE PhysRange(_, _)
PhysRange(i, k) == IF i > k THEN <<>> ELSE Phys(i) \o PhysRange(i + 1, k)

IncAct == IF \E y \in acts : y.a = "inc" THEN CHOOSE y \in acts : y.a = "inc" ELSE Act("none", 0, 0)
Main == IF IncAct.a = "none" THEN PhysRange(1, NL)
        ELSE PhysRange(1, IncAct.i - 1) \o <<".include 'moved.s'">> \o PhysRange(IncAct.j + 1, NL)
Inc  == IF IncAct.a = "none" THEN <<>> ELSE PhysRange(IncAct.i, IncAct.j)

\* abstraction: the pieces in order; no action touches it (Lines is constant) — stated as an
\* invariant on the rendering: removing the annotation texts gives the base rendering
Emit == PrintT(ToJson([acts |-> acts, main |-> Main, inc |-> Inc, final_newline |-> ~Has("nofinalnl", 0, 0)]))
=============================================================================
