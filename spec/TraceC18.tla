----------------------------- MODULE TraceC18 -------------------------------
(* Judge for C18.  "codec" records: a generated table was written to a file, loaded by the    *)
(* real Table class and every string run through to_bytes / to_text.  "program" records: a     *)
(* program of .table / .text / { } items was assembled; bytes and the label after it logged.   *)
EXTENDS Table, TLC, Json, IOUtils

Trace == ndJsonDeserialize(IOEnv.TRACE_FILE)
VARIABLE i
Init == i = 0
Next == i < Len(Trace) /\ i' = i + 1

RunClause(tbl, run) ==
    IF run.bytes # Encode(tbl, run.s) THEN "to_bytes differs from longest-match encoding"
    ELSE IF CleanTable(tbl) /\ NoJoker(run.s) /\ run.back # Flatten(MatchedTexts(tbl, run.s))
         THEN "to_text does not return the matched entries' texts"
    ELSE "ok"
CodecFails(r) == {k \in 1..Len(r.runs) : RunClause(r.table, r.runs[k]) # "ok"}

\* ---- programs: items are [k |-> "table", t |-> index] [k |-> "text", s |-> string] [k |-> "open"] [k |-> "close"]
\* stack of table indices in force (0 = none); .text captures the table in force where it stands
RECURSIVE Walk(_, _, _, _, _)
Walk(items, tables, j, stack, out) ==
    IF j > Len(items) THEN [ok |-> TRUE, out |-> out]
    ELSE LET it == items[j] top == stack[Len(stack)] IN
         CASE it.k = "open"  -> Walk(items, tables, j + 1, Append(stack, top), out)
           \* an .if opens no scope: what its branch loads stays in force after it
           [] it.k \in {"ifopen", "ifclose"} -> Walk(items, tables, j + 1, stack, out)
           [] it.k = "close" -> Walk(items, tables, j + 1, SubSeq(stack, 1, Len(stack) - 1), out)
           [] it.k = "table" -> Walk(items, tables, j + 1, [stack EXCEPT ![Len(stack)] = it.t], out)
           [] it.k = "text"  -> IF top = 0 THEN [ok |-> FALSE, out |-> out]
                                ELSE Walk(items, tables, j + 1, stack, out \o Encode(tables[top], it.s))
ProgramClause(r) ==
    LET e == Walk(r.items, r.tables, 1, <<0>>, <<>>) IN
    IF ~e.ok THEN (IF r.obs.ok THEN ".text without a table in force was assembled" ELSE "ok")
    ELSE IF ~r.obs.ok THEN "program with tables in force was rejected"
    ELSE IF r.obs.bytes # e.out THEN ".text bytes differ from the table in force"
    ELSE IF r.obs.endlabel # r.org + Len(e.out) THEN "layout size differs from emitted bytes"
    ELSE "ok"

Judge == i = 0 \/ LET r == Trace[i] IN
    IF r.t = "codec"
    THEN LET f == CodecFails(r) IN f = {} \/ PrintT(ToJson([id |-> r.id, clause |-> RunClause(r.table, r.runs[CHOOSE k \in f : TRUE]), fails |-> f]))
    ELSE LET c == ProgramClause(r) IN c = "ok" \/ PrintT(ToJson([id |-> r.id, clause |-> c]))
=============================================================================
