----------------------------- MODULE TraceC02N ------------------------------
(* C02, second formulation, on the recorded behaviour of the real node list: for every node the  *)
(* address it was given in the label pass equals the address at which it is emitted, and the size  *)
(* it was given there (address out = address in advanced by it) equals the number of bytes it      *)
(* emits.  Position moves emit nothing and are exempt from the size rule.  Only for assemblies     *)
(* that succeeded (a failure is the other allowed outcome).                                        *)
EXTENDS Bus, TLC, Json, IOUtils
Trace == ndJsonDeserialize(IOEnv.TRACE_FILE)
VARIABLE i
Init == i = 0
Next == i < Len(Trace) /\ i' = i + 1
BusOf(r) == IF r.decls # <<>> THEN r.decls ELSE IF r.rom = "high" THEN HiROM ELSE LoROM
Bad(r) == LET B == BusOf(r) IN
    {j \in 1..Len(r.nodes) : LET n == r.nodes[j] IN
        \/ n.in3 # n.in1
        \/ (n.n3 > 0 /\ Class(B, n.in1) \in {"rom", "ram"} /\ AdvanceDefined(B, n.in1, n.n3) /\ n.out1 # Advance(B, n.in1, n.n3))}
Clause(r) == IF ~r.ok THEN "ok"
             ELSE LET b == Bad(r) IN IF b = {} THEN "ok"
                  ELSE LET j == CHOOSE x \in b : \A y \in b : x <= y IN
                       "node " \o ToString(r.nodes[j].i) \o ": label pass " \o ToString(<<r.nodes[j].in1, r.nodes[j].out1>>) \o
                       " emission " \o ToString(<<r.nodes[j].in3, r.nodes[j].n3>>)
Judge == i = 0 \/ LET r == Trace[i] c == Clause(r) IN
                  IF c = "ok" THEN TRUE ELSE PrintT(ToJson([id |-> r.id, clause |-> c]))
=============================================================================
