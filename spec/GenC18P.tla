------------------------------ MODULE GenC18P -------------------------------
(* Behaviour machine for the scoping part of C18: every balanced sequence of at most MaxItems  *)
(* items over { .table T1, .table T2, .text s1, .text s2, "{", "}" } with nesting depth <= 2,  *)
(* plus `.if 1 {` ... `}` wrappers, which open no scope (a table loaded inside stays in force).  *)
EXTENDS Table, TLC, Json, IOUtils
MaxItems == atoi(IOEnv.MAXITEMS)

C(ch) == [k |-> "c", v |-> ch]
S1 == <<C("a"), C("b")>>
S2 == <<C("b"), C("a"), [k |-> "j", v |-> 65], C("c"), C("a")>>
\* a string that ends in an escaped quote: the characters between the outer quotes are a b \ ' (the backslash has
\* no table entry and is skipped, the quote has one)
S3 == <<C("a"), C("b"), C("\\"), C("'")>>
T1 == << [text |-> <<"a">>, code |-> <<1>>], [text |-> <<"b">>, code |-> <<2>>], [text |-> <<"a", "b">>, code |-> <<3>>],
         [text |-> <<"'">>, code |-> <<144>>], [text |-> <<"c">>, code |-> <<0, 67>>],
         \* an entry for the character that opens the raw-byte escape: [0xNN] still emits the raw byte
         [text |-> <<"[">>, code |-> <<91>>] >>
T2 == << [text |-> <<"a">>, code |-> <<17>>], [text |-> <<"b", "a">>, code |-> <<18, 19>>] >>
\* only single characters with one-byte codes (escapes and unknown characters still change the size)
T3 == << [text |-> <<"a">>, code |-> <<33>>], [text |-> <<"b">>, code |-> <<34>>] >>
Items == { [k |-> "table", t |-> 1], [k |-> "table", t |-> 2], [k |-> "table", t |-> 3], [k |-> "text", s |-> S1], [k |-> "text", s |-> S2], [k |-> "text", s |-> S3],
           [k |-> "open"], [k |-> "close"], [k |-> "ifopen"], [k |-> "ifclose"] }

VARIABLES items, stk
Init == items = <<>> /\ stk = <<>>
Next == /\ Len(items) < MaxItems
        /\ \E it \in Items :
             /\ (it.k = "close" => stk # <<>> /\ stk[Len(stk)] = "s")
             /\ (it.k = "ifclose" => stk # <<>> /\ stk[Len(stk)] = "i")
             /\ (it.k \in {"open", "ifopen"} => Len(stk) < 2)
             /\ stk' = (IF it.k = "open" THEN Append(stk, "s") ELSE IF it.k = "ifopen" THEN Append(stk, "i")
                        ELSE IF it.k \in {"close", "ifclose"} THEN SubSeq(stk, 1, Len(stk) - 1) ELSE stk)
             /\ Len(items) + 1 + Len(stk') <= MaxItems
             /\ items' = Append(items, it)
HasText == \E j \in 1..Len(items) : items[j].k = "text"
Emit == (stk = <<>> /\ HasText) => PrintT(ToJson([items |-> items, tables |-> <<T1, T2, T3>>]))
=============================================================================
