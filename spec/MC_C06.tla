------------------------------ MODULE MC_C06 --------------------------------
(* Design level for C06: for EVERY token string of at most MaxLen tokens over the alphabet  *)
(* that the reference grammar accepts, the shunting-yard machine yields the grammar's tree  *)
(* (hence the same value).  Also the vector source of pipeline A (Emit).                    *)
EXTENDS Expr, TLC, Json, IOUtils

MaxLen == atoi(IOEnv.MAXLEN)
Rule   == IOEnv.RULE                     \* "intended" | "pinned" (spec mutant)
EmitOn == IOEnv.EMIT = "1"

Alphabet == {"2", "3", "x", "-", "~", "*", "+", "<<", ">>", "&", "|", "(", ")"}
Tok(s) == CASE s = "2" -> [k |-> "num", v |-> FromInt(2)]
            [] s = "3" -> [k |-> "num", v |-> FromInt(3)]
            [] s = "x" -> [k |-> "id", v |-> "x"]
            [] s = "(" -> [k |-> "lp"] [] s = ")" -> [k |-> "rp"]
            [] OTHER -> [k |-> "op", o |-> s]
Toks(ss) == [j \in 1..Len(ss) |-> Tok(ss[j])]
Env == [x |-> FromInt(5)]

\* ts: the string built so far; depth: open parentheses; need: an operand is expected next
VARIABLES ts, depth, need
vars == <<ts, depth, need>>

Init == ts = <<>> /\ depth = 0 /\ need = TRUE
Append1(s) ==
    /\ Len(ts) < MaxLen
    /\ IF need
       THEN \/ s \in {"2", "3", "x"} /\ need' = FALSE /\ depth' = depth
            \/ s \in {"-", "~"} /\ need' = TRUE /\ depth' = depth
            \/ s = "(" /\ need' = TRUE /\ depth' = depth + 1
       ELSE \/ s \in {"-", "*", "+", "<<", ">>", "&", "|"} /\ need' = TRUE /\ depth' = depth
            \/ s = ")" /\ depth > 0 /\ need' = FALSE /\ depth' = depth - 1
    /\ Len(ts) + 1 + depth' + (IF need' THEN 1 ELSE 0) <= MaxLen     \* can still be completed
    /\ ts' = Append(ts, s)
Next == \E s \in Alphabet : Append1(s)

Complete == ts # <<>> /\ depth = 0 /\ ~need

\* every complete string is accepted by the reference grammar (the generator is sound)
GrammarAccepts == Complete => GrammarTree(Toks(ts)) # Invalid
\* the property: shunting-yard = grammar
Agree == Complete => SYTree(Toks(ts), Rule) = GrammarTree(Toks(ts))
\* unary operators bind tightest, binary levels are left-associative (spot laws on the grammar)
Laws == /\ GrammarTree(Toks(<<"-", "2", "*", "3">>)) =
             [k |-> "bin", o |-> "*", l |-> [k |-> "un", o |-> "-", e |-> Tok("2")], r |-> Tok("3")]
        /\ GrammarTree(Toks(<<"2", "-", "3", "-", "x">>)) =
             [k |-> "bin", o |-> "-", l |-> [k |-> "bin", o |-> "-", l |-> Tok("2"), r |-> Tok("3")], r |-> Tok("x")]
        /\ GrammarTree(Toks(<<"2", "|", "3", "&", "x", "<<", "2", "+", "3", "*", "x">>)) =
             [k |-> "bin", o |-> "|", l |-> Tok("2"), r |->
               [k |-> "bin", o |-> "&", l |-> Tok("3"), r |->
                 [k |-> "bin", o |-> "<<", l |-> Tok("x"), r |->
                   [k |-> "bin", o |-> "+", l |-> Tok("2"), r |-> [k |-> "bin", o |-> "*", l |-> Tok("3"), r |-> Tok("x")]]]]]
        /\ EvalW(GrammarTree(Toks(<<"~", "2">>)), Env).v = FromInt(253)
        /\ EvalW(GrammarTree(Toks(<<"2", "+", "3", "*", "x">>)), Env).v = FromInt(17)
        /\ EvalW(GrammarTree(Toks(<<"~", "~", "x">>)), Env).v = FromInt(5)

Emit == (EmitOn /\ Complete) => PrintT(ToJson(ts))
=============================================================================
